/* zcheck.c — the LIBRARY's verdict on a file, for the CLI oracle (C19): decode <file.zst> [--dict D] [--out F]
 * prints "OK <decoded size>" and writes the decoded bytes to --out, or "ERR <library error>" ; exit 0 in both cases. */
#define ZSTD_STATIC_LINKING_ONLY
#include "zstd.h"
#include <stdio.h>
#include <stdlib.h>
#include <string.h>
static unsigned char* slurp(const char* p, size_t* n) { FILE* f = fopen(p, "rb"); unsigned char* b; long sz; if (!f) return NULL; fseek(f, 0, SEEK_END); sz = ftell(f); fseek(f, 0, SEEK_SET); b = (unsigned char*)malloc((size_t)sz + 1); *n = fread(b, 1, (size_t)sz, f); fclose(f); return b; }
int main(int argc, char** argv) {
    const char* in = NULL; const char* dict = NULL; const char* out = NULL; int i; size_t n = 0, dn = 0; unsigned char* src; unsigned char* d = NULL; ZSTD_DCtx* dctx; FILE* fo = NULL;
    ZSTD_inBuffer ib; ZSTD_outBuffer ob; unsigned char* obuf; size_t total = 0; size_t r = 1; int long_mode = 0;
    for (i = 1; i < argc; i++) { if (!strcmp(argv[i], "--dict") && i + 1 < argc) dict = argv[++i]; else if (!strcmp(argv[i], "--out") && i + 1 < argc) out = argv[++i]; else if (!strcmp(argv[i], "--long")) long_mode = 1; else in = argv[i]; }
    if (!in) { fprintf(stderr, "usage: zcheck file.zst [--dict D] [--out F]\n"); return 2; }
    src = slurp(in, &n); if (!src) { printf("ERR cannot read input\n"); return 0; }
    if (dict) d = slurp(dict, &dn);
    dctx = ZSTD_createDCtx(); obuf = (unsigned char*)malloc(1 << 17);
    ZSTD_DCtx_setParameter(dctx, ZSTD_d_windowLogMax, long_mode ? 31 : 27);
    if (d) ZSTD_DCtx_loadDictionary(dctx, d, dn);
    if (out) fo = fopen(out, "wb");
    ib.src = src; ib.size = n; ib.pos = 0;
    if (n == 0) { printf("ERR empty input\n"); return 0; }
    while (ib.pos < ib.size) {
        ob.dst = obuf; ob.size = 1 << 17; ob.pos = 0;
        r = ZSTD_decompressStream(dctx, &ob, &ib);
        if (ZSTD_isError(r)) { printf("ERR %s\n", ZSTD_getErrorName(r)); return 0; }
        if (fo && ob.pos) fwrite(obuf, 1, ob.pos, fo);
        total += ob.pos;
    }
    while (r != 0) { size_t before; ob.dst = obuf; ob.size = 1 << 17; ob.pos = 0; before = ib.pos; r = ZSTD_decompressStream(dctx, &ob, &ib); if (ZSTD_isError(r)) { printf("ERR %s\n", ZSTD_getErrorName(r)); return 0; } if (fo && ob.pos) fwrite(obuf, 1, ob.pos, fo); total += ob.pos; if (ob.pos == 0 && ib.pos == before) break; }
    if (fo) fclose(fo);
    if (r != 0) { printf("ERR truncated: frame incomplete\n"); return 0; }
    printf("OK %zu\n", total);
    return 0;
}
