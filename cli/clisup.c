/* clisup.c — ptrace supervisor for the zstd command-line tool (C19).
 * Runs a command in a directory, counts the file-system-mutating system calls of its process tree, and can
 *   --kill K    SIGKILL the whole tree at the ENTRY of the K-th mutating call (the call does not happen)
 *   --int K     deliver SIGINT to the main process at that point instead
 *   --eio K     make the K-th mutating call fail with EIO / ENOSPC (--enospc K) without executing it
 * writes to fd 1/2 are not counted, so display output cannot shift indices.
 * Output (stdout, one line): RESULT count=<n> fired=<0|1> exit=<status|-1> signal=<sig|0> at=<syscall name> threads=<n>
 * With --list every counted call is printed to stderr. */
#define _GNU_SOURCE
#include <errno.h>
#include <fcntl.h>
#include <signal.h>
#include <stdio.h>
#include <stdlib.h>
#include <string.h>
#include <unistd.h>
#include <sys/ptrace.h>
#include <sys/syscall.h>
#include <sys/types.h>
#include <sys/user.h>
#include <sys/wait.h>

#define MAXT 64
static struct { pid_t tid; int in_syscall; int fake_pending; int dead; } T[MAXT]; static int nT;
static unsigned char g_wfd[4096]; static int g_pending_open[MAXT];
static int tix(pid_t t) { int i; for (i = 0; i < nT; i++) if (T[i].tid == t) return i; if (nT < MAXT) { T[nT].tid = t; T[nT].in_syscall = 0; T[nT].fake_pending = 0; return nT++; } return 0; }

#include <linux/ptrace.h>
typedef struct { long orig_rax, rdi, rsi, rdx; } SC;
static const char* mutating(SC* r) {
    long nr = (long)r->orig_rax;
    switch (nr) {
    case SYS_open:   { long fl = (long)r->rsi; if ((fl & (O_WRONLY | O_RDWR | O_CREAT | O_TRUNC | O_APPEND)) != 0) return "open(w)"; return NULL; }
    case SYS_openat: { long fl = (long)r->rdx; if ((fl & (O_WRONLY | O_RDWR | O_CREAT | O_TRUNC | O_APPEND)) != 0) return "openat(w)"; return NULL; }
    case SYS_creat: return "creat";
    case SYS_write: case SYS_pwrite64: case SYS_writev: case SYS_pwritev: return ((long)r->rdi >= 3 && (long)r->rdi < 4096 && g_wfd[r->rdi]) ? "write" : NULL;
    case SYS_close: return ((long)r->rdi >= 3 && (long)r->rdi < 4096 && g_wfd[r->rdi]) ? "close" : NULL;
    case SYS_unlink: return "unlink"; case SYS_unlinkat: return "unlinkat";
    case SYS_rename: return "rename"; case SYS_renameat: return "renameat"; case SYS_renameat2: return "renameat2";
    case SYS_chmod: return "chmod"; case SYS_fchmod: return "fchmod"; case SYS_fchmodat: return "fchmodat";
    case SYS_chown: return "chown"; case SYS_fchown: return "fchown"; case SYS_lchown: return "lchown"; case SYS_fchownat: return "fchownat";
    case SYS_utimensat: return "utimensat"; case SYS_utimes: return "utimes"; case SYS_utime: return "utime"; case SYS_futimesat: return "futimesat";
    case SYS_ftruncate: return "ftruncate"; case SYS_truncate: return "truncate";
    case SYS_mkdir: return "mkdir"; case SYS_mkdirat: return "mkdirat"; case SYS_rmdir: return "rmdir";
    case SYS_link: return "link"; case SYS_linkat: return "linkat"; case SYS_symlink: return "symlink"; case SYS_symlinkat: return "symlinkat";
    case SYS_lseek: return ((long)r->rdi >= 3 && 0) ? "lseek" : NULL;
    case SYS_fallocate: return "fallocate";
    default: return NULL;
    }
}

int main(int argc, char** argv) {
    long kill_at = 0, int_at = 0, eio_at = 0, enospc_at = 0, intx_at = 0, advance = 1; pid_t held = 0, parked = 0; int phase = 0; long main_budget = -1; int list = 0; const char* dir = NULL; const char* out_path = NULL; const char* in_path = NULL; int i = 1;
    pid_t child; int status; long count = 0; int fired = 0; const char* at = "-"; int exit_status = -1, term_sig = 0; int first = 1;
    for (; i < argc; i++) {
        if (!strcmp(argv[i], "--kill") && i + 1 < argc) kill_at = atol(argv[++i]);
        else if (!strcmp(argv[i], "--int") && i + 1 < argc) int_at = atol(argv[++i]);
        else if (!strcmp(argv[i], "--intx") && i + 1 < argc) intx_at = atol(argv[++i]);
        else if (!strcmp(argv[i], "--advance") && i + 1 < argc) advance = atol(argv[++i]);
        else if (!strcmp(argv[i], "--eio") && i + 1 < argc) eio_at = atol(argv[++i]);
        else if (!strcmp(argv[i], "--enospc") && i + 1 < argc) enospc_at = atol(argv[++i]);
        else if (!strcmp(argv[i], "--dir") && i + 1 < argc) dir = argv[++i];
        else if (!strcmp(argv[i], "--stdout") && i + 1 < argc) out_path = argv[++i];
        else if (!strcmp(argv[i], "--stdin") && i + 1 < argc) in_path = argv[++i];
        else if (!strcmp(argv[i], "--list")) list = 1;
        else if (!strcmp(argv[i], "--")) { i++; break; }
        else break;
    }
    if (i >= argc) { fprintf(stderr, "usage: clisup [--kill K|--int K|--eio K|--enospc K] [--dir D] [--stdout F] [--stdin F] [--list] -- cmd args...\n"); return 2; }
    child = fork();
    if (child == 0) {
        if (dir && chdir(dir) != 0) _exit(126);
        { int fd = open(in_path ? in_path : "/dev/null", O_RDONLY); if (fd >= 0) { dup2(fd, 0); if (fd > 2) close(fd); } }
        if (out_path) { int fd = open(out_path, O_WRONLY | O_CREAT | O_TRUNC, 0644); if (fd >= 0) { dup2(fd, 1); if (fd > 2) close(fd); } }
        { int fd = open("/dev/null", O_WRONLY); if (fd >= 0) { dup2(fd, 2); if (fd > 2) close(fd); } }
        ptrace(PTRACE_TRACEME, 0, NULL, NULL);
        raise(SIGSTOP);
        execv(argv[i], argv + i);
        _exit(127);
    }
    if (waitpid(child, &status, 0) < 0 || !WIFSTOPPED(status)) { fprintf(stderr, "clisup: child did not stop\n"); return 2; }
    if (ptrace(PTRACE_SETOPTIONS, child, NULL, (void*)(long)(PTRACE_O_TRACESYSGOOD | PTRACE_O_TRACECLONE | PTRACE_O_TRACEFORK | PTRACE_O_TRACEVFORK | PTRACE_O_EXITKILL)) != 0) { perror("ptrace setoptions"); kill(child, SIGKILL); return 3; }
    tix(child);
    ptrace(PTRACE_SYSCALL, child, NULL, NULL);
    for (;;) {
        pid_t t = waitpid(-1, &status, __WALL); int sig = 0; int ti;
        if (t < 0) { if (errno == ECHILD) break; if (errno == EINTR) continue; break; }
        ti = tix(t);
        if (WIFEXITED(status) || WIFSIGNALED(status)) {
            if (t == child) { if (WIFEXITED(status)) exit_status = WEXITSTATUS(status); else { term_sig = WTERMSIG(status); exit_status = -1; } }
            T[ti].dead = 1;
            continue;
        }
        if (!WIFSTOPPED(status)) continue;
        if (WSTOPSIG(status) == (SIGTRAP | 0x80)) {
            struct user_regs_struct regs; struct ptrace_syscall_info info; SC sc;
            memset(&info, 0, sizeof info);
            if (ptrace(PTRACE_GET_SYSCALL_INFO, t, (void*)sizeof info, &info) <= 0) { ptrace(PTRACE_SYSCALL, t, NULL, NULL); continue; }
            (void)first;
            if (info.op == PTRACE_SYSCALL_INFO_ENTRY) {
                sc.orig_rax = (long)info.entry.nr; sc.rdi = (long)info.entry.args[0]; sc.rsi = (long)info.entry.args[1]; sc.rdx = (long)info.entry.args[2];
                {
                    const char* m = mutating(&sc);
                    g_pending_open[ti] = (m && (!strcmp(m, "open(w)") || !strcmp(m, "openat(w)") || !strcmp(m, "creat")));
                    if (m && !strcmp(m, "close") && sc.rdi >= 0 && sc.rdi < 4096) g_wfd[sc.rdi] = 0;
                    if (m) {
                        count++;
                        if (list) fprintf(stderr, "MUT %ld tid=%d %s(%ld, %ld, %ld)\n", count, (int)t, m, sc.rdi, sc.rsi, sc.rdx);
                        if (kill_at && count == kill_at) { fired = 1; at = m; kill(child, SIGKILL); { int k; for (k = 0; k < nT; k++) kill(T[k].tid, SIGKILL); } }
                        else if (int_at && count == int_at) { fired = 1; at = m; syscall(SYS_tgkill, child, child, SIGINT); }
                        else if (intx_at && count == intx_at && phase == 0) {
                            /* cross-thread interruption: SIGINT goes to a thread H that is neither the main thread nor the caller X of this
                             * call; H runs the handler up to its first file-system call and is held there (descheduled) while everyone else
                             * advances `advance` more mutating calls; then H alone is released. */
                            int q; pid_t other = 0; for (q = 0; q < nT; q++) if (T[q].tid != child && T[q].tid != t && !T[q].dead) { other = T[q].tid; break; }
                            if (other) { fired = 1; at = m; syscall(SYS_tgkill, child, other, SIGINT); held = other; parked = t; phase = 1; continue; }   /* X stays parked until H is held */
                        }
                        else if (phase == 1 && t == held) { phase = 2; main_budget = advance; ptrace(PTRACE_SYSCALL, parked, NULL, NULL); continue; }   /* hold H, release X */
                        else if (phase == 2 && t != held) { if (main_budget <= 0) { phase = 3; ptrace(PTRACE_SYSCALL, held, NULL, NULL); continue; } main_budget--; }
                        else if ((eio_at && count == eio_at) || (enospc_at && count == enospc_at)) { fired = 1; at = m; if (ptrace(PTRACE_GETREGS, t, NULL, &regs) == 0) { regs.orig_rax = (unsigned long long)-1; ptrace(PTRACE_SETREGS, t, NULL, &regs); T[ti].fake_pending = (eio_at && count == eio_at) ? EIO : ENOSPC; } }
                    }
                }
            } else if (info.op == PTRACE_SYSCALL_INFO_EXIT && g_pending_open[ti] && !T[ti].fake_pending) {
                long fd = (long)info.exit.rval; if (fd >= 0 && fd < 4096) g_wfd[fd] = 1; g_pending_open[ti] = 0;
            } else if (info.op == PTRACE_SYSCALL_INFO_EXIT && T[ti].fake_pending) {   /* exit of a suppressed call: install the error */
                if (ptrace(PTRACE_GETREGS, t, NULL, &regs) == 0) { regs.rax = (unsigned long long)(-(long)T[ti].fake_pending); ptrace(PTRACE_SETREGS, t, NULL, &regs); }
                T[ti].fake_pending = 0;
            }
        } else if (WSTOPSIG(status) == SIGTRAP) {
            int ev = status >> 16;
            if (ev == PTRACE_EVENT_CLONE || ev == PTRACE_EVENT_FORK || ev == PTRACE_EVENT_VFORK) { unsigned long nt = 0; ptrace(PTRACE_GETEVENTMSG, t, NULL, &nt); if (nt) tix((pid_t)nt); }
        } else if (WSTOPSIG(status) == SIGSTOP) {
            sig = 0;    /* initial stop of a new thread */
        } else sig = WSTOPSIG(status);   /* deliver real signals (SIGINT etc.) */
        ptrace(PTRACE_SYSCALL, t, NULL, (void*)(long)sig);
    }
    printf("RESULT count=%ld fired=%d exit=%d signal=%d at=%s threads=%d\n", count, fired, exit_status, term_sig, at, nT);
    return 0;
}
