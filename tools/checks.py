#!/usr/bin/env python3
"""checks.py — per-property check definitions and the generic check driver."""
import os, sys, time, json
import vlib
from vlib import log

REAL_COMMON = ['lib/ (all zstd library code, compiled from /repo working tree)']
STUB_COMMON = ['pthread primitives (simsched)', 'allocator (simalloc over malloc)']

# Each batch: dict(scenario, flavour, quick, thorough[, workers, cpu_cap])
CHECKS = {
    'C12': dict(
        level='exploration',
        batches=[dict(scenario='c12pool', flavour='P', quick=40000, thorough=1500000),
                 dict(scenario='c12pool', flavour='T', quick=3000, thorough=200000),
                 dict(scenario='c12pool', flavour='A', quick=6000, thorough=200000)],
        rule='seeded client programs over {add,tryAdd,joinJobs,resize,free} x pool configs x schedules; distinct = distinct (plan signature, schedule signature); non-trivial = at least 2 accepted jobs',
        real=['lib/common/pool.c (real code, real worker threads parked/released by simsched)'], stub=STUB_COMMON,
        assumptions=['interleavings explored at synchronisation operations only; sound because the same runs execute under ThreadSanitizer (flavour T) which reports unsynchronised conflicting accesses even in a serialised run',
                     'client programs never post concurrently with POOL_free from another client and never joinJobs from inside a job'],
    ),
    'C13': dict(
        level='fault_enumeration',
        batches=[dict(scenario='c13oom', flavour='P', quick=17 * 64 * 4, thorough=17 * 64 * 40),
                 dict(scenario='c13oom', flavour='A', quick=17 * 64 * 2, thorough=17 * 64 * 12)],
        rule='run = (API scenario S of 17, fault index k): gen counts allocs(S) fault-free under the run\'s schedule, then allocation 1+(j mod n) fails; 17*64 consecutive runs sweep every k (scenarios have at most 64 allocations; allocs_sum/runs in probes gives the mean) of every scenario for one variant; distinct = distinct plan signature (S, variant, k); non-trivial = the injected failure actually fired',
        real=REAL_COMMON + ['lib/dictBuilder trainers via libc seam'], stub=STUB_COMMON + ['libc malloc/calloc/realloc/free via -Wl,--wrap (armed only inside the call under test)'],
        assumptions=['one (thorough: sometimes two) failing allocation per run', 'allocation sequence deterministic given the schedule seed (simsched)', 'catalogue of 17 API scenarios; not every API entry point'],
    ),
    'C11': dict(
        level='exploration',
        batches=[dict(scenario='c11mt', flavour='P', quick=6400, thorough=200000),
                 dict(scenario='c11mt', flavour='T', quick=1280, thorough=30000, workers=16),
                 dict(scenario='c11mt', flavour='A', quick=960, thorough=20000)],
        rule='seeded MT sessions (1-3 frames through one CCtx, per-frame worker counts, dict/prefix/CDict, mid-frame level changes, abandoned frames, free mid-frame) x schedules (rw/pct/sticky/starve) x fault plans (every 5th run: spurious wake-ups, pthread_create/init failure, allocation failure); distinct = distinct (plan signature, schedule signature); non-trivial = at least 2 compression jobs ran',
        real=REAL_COMMON, stub=STUB_COMMON + ['byte transport between compressor and decoder (simio)', 'independent decoder: vendored educational decoder + own XXH64 (ref/)'],
        assumptions=['interleavings explored at synchronisation operations only; the T flavour (ThreadSanitizer over the same runs, scheduler invisible to it) reports any conflicting accesses those operations do not order',
                     'fair scheduling after 500 consecutive picks of one thread (zstd busy-waits with tryAdd/lock while a worker finishes)'],
    ),
    'C02': dict(
        level='exploration',
        batches=[dict(scenario='c02stream', flavour='P', quick=12000, thorough=400000), dict(scenario='c02stream', flavour='A', quick=2400, thorough=60000)],
        rule='seeded sessions: input x parameter vector x compressor call history (in_len,out_cap,directive,repeat; compressStream2 / legacy initCStream+compressStream+flushStream+endStream / stable in+out buffers; several frames, skippable frames injected on the wire; every 7th run multithreaded under simsched) x decoder call history (in_len,out_cap,repeat); distinct = distinct plan signature; non-trivial = at least 3 compression calls',
        real=REAL_COMMON, stub=['byte transport and segmentation (simio)', 'allocator (simalloc)', 'pthread primitives (simsched, MT runs)'],
        assumptions=['caller obligations honoured: after an unfinished end only end is re-issued with frozen input; stable-buffer rules; out_cap>=1 and in_len>=1 on the decoder side', 'frame boundaries for the frame-end oracle come from the independent frame walker (ref/refdec.c)'],
    ),
    'C05': dict(
        level='exploration',
        batches=[dict(scenario='c05conf', flavour='P', quick=12000, thorough=300000), dict(scenario='c05conf', flavour='A', quick=3000, thorough=60000), dict(scenario='c17seq', flavour='P', quick=6000, thorough=200000)],
        rule='(third batch: the C17 scenario c17seq, whose valid-parse runs send sequence-level compression, including blocks with exactly K sequences around the 127/128 and 0x7F00 encodings of Number_of_Sequences, through the same conformance oracle) same session generator as C02 biased to small windows (windowLog 10-16 on inputs up to 2 MiB quick / 8 MiB thorough so window expiry is crossed constantly), dictionaries, MT every 7th run; every frame on the wire goes to the independent decoder + frame walker; distinct = distinct plan signature; non-trivial = at least 3 compression calls',
        real=REAL_COMMON, stub=['independent decoder: vendored educational decoder (enforces offset <= window / dictionary reach), own frame walker, own XXH64', 'transport, allocator, pthread primitives'],
        assumptions=['the vendored educational decoder is the specification oracle R', 'interoperability rules checked: compressed block smaller than its content, no RLE first block followed by more blocks; the sub-4-byte sequence-section rule is not checked (would need table-level parsing)'],
    ),
    'C10': dict(
        level='exploration',
        batches=[dict(scenario='c10prog', flavour='P', quick=15000, thorough=400000), dict(scenario='c10prog', flavour='A', quick=3000, thorough=60000)],
        rule='session generator of C02 with flush-heavy histories; (a) every call given input and output space must progress; (b) at up to 6 completed flushes per run the producer "crashes": a fresh streaming decoder is fed exactly the bytes emitted so far; (c) a hint-following reader decodes the whole stream; distinct = distinct plan signature; non-trivial = at least 3 compression calls',
        real=REAL_COMMON, stub=['byte transport and segmentation (simio)', 'allocator (simalloc)', 'pthread primitives (simsched, MT runs)'],
        assumptions=['flush completion = compressStream2(flush)/flushStream returned 0', 'liveness stated as progress per call and bounded total calls, never wall-clock'],
    ),
    'C09': dict(
        level='fault_enumeration',
        batches=[dict(scenario='c09trunc', flavour='P', quick=3200, thorough=120000), dict(scenario='c09trunc', flavour='A', quick=640, thorough=16000)],
        rule='per run one generated wire (10 frame shapes: empty / raw / RLE / compressed / multi-block / magicless / dictionary+dictID / multi-frame / skippable / flushed stream; checksum and content-size flags random): EVERY cut point 0<k<|wire| for wires up to 6000 bytes (larger: all points within 40 bytes of either end plus a stride) through one-shot, streaming (plan segmentation), buffer-less and the frame-size inspector; all 32 stored-checksum bit flips per checksummed frame; up to 800 sampled content bit flips; 5 trailing-garbage lengths; 4 pledged-size lies; distinct = distinct plan signature; non-trivial = at least one cut point evaluated (probes c09.cut_points / c09.bit_flips give the enumerated fault counts)',
        real=REAL_COMMON, stub=['the wire between producer and decoder (cut / flipped / extended by the simulator)', 'frame boundaries, declared sizes and checksums recomputed by the independent frame walker and own XXH64'],
        assumptions=['cut points exactly between frames are valid shorter streams and are excluded', 'content bit flips are sampled (seeded), checksum bit flips and cut points of small wires are exhaustive'],
        coverage_extra=lambda t: dict(cut_points_enumerated=t.probes.get('c09.cut_points', 0), wires_cut_exhaustively=t.probes.get('c09.frames_cut_exhaustively', 0), bit_flips=t.probes.get('c09.bit_flips', 0)),
    ),
    'C07': dict(
        level='exploration',
        batches=[dict(scenario='c07pure', flavour='P', quick=9000, thorough=300000), dict(scenario='c07pure', flavour='A', quick=900, thorough=20000),
                 dict(scenario='c07mt', flavour='P', quick=1200, thorough=40000)],
        rule='pairs of executions of the same logical call sequence differing in one nuisance axis: H prior context history (frames with other parameters, abandoned frame, dst-too-small / pledge / injected-allocation failures + reset, index jump), A memory (static vs heap context, allocator placement, source alignment, scattered slices), O output-capacity sequences, W/S worker count and simulated schedule (c07mt); distinct = distinct plan signature (x schedule signature for c07mt); non-trivial = non-empty input and at least one frame (c07mt: at least 2 jobs)',
        real=REAL_COMMON, stub=['allocator placement and faults (simalloc)', 'pthread primitives (simsched, c07mt)', 'guarded hooks: probe for the stream-end shortcut, index jump'],
        assumptions=['logical call = (slice, directive) drained by as many physical calls as the output capacities require', 'c07mt restricts histories to continue + final end because how much a non-blocking MT call consumes is schedule dependent'],
    ),
    'C04': dict(
        level='exploration',
        batches=[dict(scenario='c04decvar', flavour='P', quick=24000, thorough=600000, corpus=dict(quick=600, thorough=4000)),
                 dict(scenario='c04decvar', flavour='A', quick=4500, thorough=60000, corpus=dict(quick=600, thorough=4000)),
                 dict(scenario='c04decvar', flavour='N', quick=9000, thorough=100000, corpus=dict(quick=600, thorough=4000))],
        rule='frame sources: compressor output under random parameters/dictionaries (5/8), spec-valid exotic frames from tests/decodecorpus.c seeded by the run root (2/8), wire-faulted frames the reference still accepts (1/8); each decoded through 8 paths (one-shot, simple API, streaming under the plan segmentation, streaming with disableHuffmanAssembly, stable output buffer, buffer-less, in-place, DDict cold+warm) with the decoder coins (HUF X1<->X2, prefetch sequence decoder, BMI2 off) set per path; distinct = distinct plan signature; non-trivial = reference output non-empty',
        real=REAL_COMMON + ['tests/decodecorpus.c (repository generator, built stand-alone) as frame source'], stub=['independent reference decoder R (ref/)', 'decoder-variant coins decided by the simulator (guarded hooks)', 'allocator'],
        assumptions=['quantifier is over frames R accepts: corpus or faulted frames R rejects are skipped and counted (probes c04.*_rejected_by_R)', 'flavour N = build variant with ZSTD_DISABLE_ASM and DYNAMIC_BMI2=0'],
    ),
    'C03': dict(
        level='exploration',
        batches=[dict(scenario='c03fuzz', flavour='A', quick=30000, thorough=600000, corpus=dict(quick=600, thorough=4000)),
                 dict(scenario='c03fuzz', flavour='P', quick=40000, thorough=1000000, corpus=dict(quick=600, thorough=4000))],
        rule='1-4 wire faults (bit flip, header bit flip, truncation, smear, stale splice, zeroed 4 KiB page, appended garbage, duplicated segment, length-field bump) on valid traffic (compressor frames, decodecorpus frames, legacy frames), pure garbage, or forged frames assembled bit by bit (one run in 16: Raw/RLE literals of chosen size biased beyond 64 KiB and to the block maximum, 0-6 sequences with RLE-mode tables and random / extreme / aimed lengths, true or lying content size; includes a split-literal squeeze template) with/without magic, damaged dictionary store; fed to 8 decode paths x 4 capacity modes + inspectors + block API + dictionary loaders; distinct = distinct plan signature',
        real=REAL_COMMON, stub=['the wire and the dictionary store (faults)', 'decoder-variant coins', 'allocator'],
        assumptions=['structure-preserving seeded mutation, not coverage-guided fuzzing: weaker than libFuzzer for deep near-valid inputs', 'streaming decoders run with windowLogMax 25 so that lying window descriptors cannot exhaust memory', 'flavour A (ASan+UBSan) is the detector; P adds guard-zone checks at higher volume'],
    ),
    'C15': dict(
        level='exploration',
        batches=[dict(scenario='c15wear', flavour='P', quick=640, thorough=30000), dict(scenario='c15wear', flavour='F', quick=960, thorough=30000), dict(scenario='c15wear', flavour='A', quick=64, thorough=1600)],
        rule='one long-lived context compresses 2-6 (thorough 2-10) frames with changing level / windowLog / strategy / LDM / dictionary / ST-MT; before about half of the frames the guarded hook jumps the match-finder index by up to 3.6 GiB (clamped below the pre-emptive reset threshold), every 8th run ends with a 17-21 MiB frame that crosses the real ZSTD_CURRENT_MAX threshold; flavour F runs the same plans with ZSTD_WINDOW_OVERFLOW_CORRECT_FREQUENTLY; thorough adds a >4 GiB pipelined stream every 97th run; each frame: round trip, conformance, equality with a fresh context; long frames with small windows are stream-decoded through tiny outputs (decoder ring wraps); distinct = distinct plan signature; non-trivial = at least 2 frames',
        real=REAL_COMMON, stub=['the context\'s index "clock" (guarded index-jump hook)', 'allocator', 'pthread primitives (MT frames)'],
        assumptions=['the index jump reproduces only states a real history can reach (index continues, below the pre-emptive reset margin); the LDM window is re-initialised per frame and is therefore never jumped: its rebasing is covered by flavour F and by the thorough >4 GiB stream', '32-bit builds are out of reach'],
        coverage_extra=lambda t: dict(real_overflow_corrections=t.probes.get('zstd.overflow_correction', 0), ldm_overflow_corrections=t.probes.get('zstd.ldm_overflow_correction', 0), index_jumps=t.probes.get('zstd.index_jumped', 0), preemptive_index_resets=t.probes.get('zstd.index_too_close_reset', 0), giant_stream_mb=t.probes.get('c15.giant_stream_mb', 0)),
    ),
    'C06': dict(
        level='exploration',
        batches=[dict(scenario='c06cap', flavour='P', quick=30000, thorough=600000), dict(scenario='c06cap', flavour='A', quick=6000, thorough=100000)],
        rule='per run one (input, parameter vector, dictionary, entry point of 5: compress2 / compressCCtx / usingDict / usingCDict / single-pass stream end): destination capacity swept over ALL values 0..bound+8 when the input is <= 300 bytes (half of the runs), else over the edges {0,1,5,12,result-1,result,result+1,bound-1,bound,bound+k} plus 5 random; decompression capacity swept likewise; inspectors over 1-4 frames with a skippable frame; distinct = distinct plan signature; non-trivial = more than 10 capacities tried (probe c06.capacities_tried = total)',
        real=REAL_COMMON, stub=['destination / source buffers: exactly sized with guard zones (poisoned under ASan)', 'independent frame walker for the inspector relations', 'allocator'],
        assumptions=['the universal claim over adversarial INPUTS for compressBound is input generation (random, incompressible and splitter-fooling generators), not simulation: only the capacity axis is treated as a fault dimension', 'multithreaded compression is not part of this scenario'],
        coverage_extra=lambda t: dict(capacities_tried=t.probes.get('c06.capacities_tried', 0), exhaustive_sweeps=t.probes.get('c06.exhaustive_capacity_sweeps', 0)),
    ),
    'C14': dict(
        level='exploration',
        batches=[dict(scenario='c14budget', flavour='P', quick=28800, thorough=400000), dict(scenario='c14budget', flavour='A', quick=5400, thorough=80000)],
        rule='9 variants in rotation: static CCtx one-shot (estimateCCtxSize(L), level l<=L with level 0 = default), static CStream with flushes, static CCtx / CStream sized by *_usingCParams with exactly those cParams, static DCtx + static DStream sized from the frame (decoded through a 4 KiB bounce buffer), static CDict/DDict, heap DStream under the accounting allocator against a window limit (with and without dictionary), sizeof_* vs live bytes over a 3-frame history; distinct = distinct plan signature',
        real=REAL_COMMON, stub=['allocator seam as monitor: libc allocations trapped (wrap) while static contexts work; accounting allocator with peak/live bytes for heap contexts', 'guard-zoned caller-provided workspaces of exactly estimate bytes'],
        assumptions=['"level l <= L" is over effective levels (0 = ZSTD_CLEVEL_DEFAULT)', 'the sweep over levels / cParams / inputs is generated workload (rides along); the simulated dimension is the allocator as enforcer and monitor'],
    ),
    'C08': dict(
        level='exploration',
        batches=[dict(scenario='c08dict', flavour='P', quick=16000, thorough=400000), dict(scenario='c08dict', flavour='A', quick=3200, thorough=60000), dict(scenario='c08dict', flavour='T', quick=1200, thorough=20000)],
        rule='per run: input x parameters x dictionary (raw content of any length incl. <8 bytes, structured via ZDICT_finalizeDictionary, 1/5 with 1-6 bit flips in the entropy header kept only if both loaders accept) x compress supply mode (usingDict, CDict byCopy/byRef, loadDictionary, refCDict, refPrefix; forceAttachDict history on a reused context; every 8th run the dictionary - trained, plain, or arbitrary bytes starting with the dictionary magic - is DECLARED raw content through the advanced loaders under each attach preference default/attach/copy/load) x decode supply mode (usingDict, DDict, loadDictionary, refDDict stream, multi-DDict table, refPrefix); every 3rd run a decoder-side store fault (other ID / same ID other content / truncated / bit flip); every 5th run one CDict+DDict shared by two simulated caller threads; distinct = distinct plan signature',
        real=REAL_COMMON, stub=['the decoder-side dictionary store (faults)', 'pthread primitives (shared-dictionary runs, TSan flavour)', 'independent decoder for conformance with dictionaries', 'allocator'],
        assumptions=['supply-mode x level x dictionary-structure matrix is generated workload; the simulated dimensions are the two-party dictionary store and cross-thread sharing', 'same-ID-other-content without checksum: no claim (undetectable by design)'],
    ),
    'C16': dict(
        level='exploration',
        batches=[dict(scenario='c16params', flavour='P', quick=12000, thorough=600000), dict(scenario='c16params', flavour='A', quick=2000, thorough=60000)],
        rule='histories of 4-30 (thorough 4-60) ops over one CCtx, one CCtxParams object and one DCtx: set (38 compression + 7 decompression parameters x value grid {lo-1,lo,lo+1,0,default,hi-1,hi,hi+1,INT_MIN,INT_MAX,random in-bounds}), reset (3 directives), start / end frame, announce a source size (exact / wrong / 0 / unknown), a frame streamed in two calls (where an announcement in force shows: srcSize_wrong, header field, or nothing after a session reset or a completed frame), provoked error + session reset, simple-API call, apply CCtxParams, the structure setters ZSTD_CCtx_setCParams / setFParams / setParams with every field in range or exactly one compression field out of range (all-or-nothing on refusal, acceptance between frames, read-back); after EVERY op all 83 getters are snapshotted and the invariants evaluated; distinct = distinct plan signature; non-trivial = at least 4 ops',
        real=REAL_COMMON, stub=['parameter reference model: invariants I-a..I-d plus table rows transcribed from zstd.h (plain read-back, boolean normalisation, updatable-mid-frame list, sticky flags observed in frame headers via the independent frame walker)'],
        assumptions=['zstd.h: "Providing a value beyond bound will either clamp it, or trigger an error (depending on parameter)" - so an accepted out-of-bounds set is not a violation as long as the value read back is inside the bounds (I-a)', '0 is tolerated by I-a for every parameter (documented as default/auto for most)', 'no schedule or clock here: the family contributes refinement of an API history against an executable model'],
    ),
    'C17': dict(
        level='exploration',
        batches=[dict(scenario='c17seq', flavour='P', quick=48000, thorough=1500000), dict(scenario='c17seq', flavour='A', quick=8000, thorough=150000)],
        rule='one sequence-level compression per run: mode in {compressSequences explicit / delimiter-free over the simulator\'s own randomised parse, the same over ZSTD_generateSequences output (raw / mergeBlockDelimiters), registered producer through compress2 / compressStream2}; every second run carries a fault: one structural corruption of the list (9 kinds), or 1-2 producer faults attached to the k-th callback (6 kinds), 1 in 8 an allocation fault; every fourth producer group is the interleaved-fallback family (the producer fails on every 2nd-4th block with fallback on, so producer-parsed and internally parsed blocks alternate in one frame and inherit each other\'s repeat offsets; producer blocks capped at 1-3 sequences, repcode search mostly disabled, strategies 6-9); distinct = distinct plan signature; non-trivial = the frame was checked against both decoders, or a required refusal / fallback outcome was evaluated',
        real=REAL_COMMON + ['lib/compress/zstd_compress.c sequence transcription, validation, ZSTD_generateSequences, ZSTD_mergeBlockDelimiters, producer post-processing and fallback'],
        stub=['the sequence producer (caller-side list builder and registered callback) is the simulator: randomised greedy parser (minMatch 3..7, repcode-biased, length-capped, dictionary-aware), checked against a sequence-execution model before being offered as valid', 'independent decoder (educational decoder) + frame walker as conformance oracle'],
        assumptions=['a list is offered as "valid" only if the sequence-execution model accepts it: offsets <= position(+dictionary while the match ends inside the window), <= window afterwards, matchLength >= max(3, ZSTD_c_minMatch), explicit blocks <= min(128 KiB, window, maxBlockSize), at most one length >= 65536 per block (format limit of the sequence store)',
                     'definite structural violations only are required to be refused: offset > min(window, position at match start) + dictionary, matchLength <= 2, missing / malformed delimiter, block sums above or below the source or above the block size; for an empty source the list is not examined by the library and a valid empty frame is accepted',
                     'arbitrary field corruption and producer garbage are checked for memory safety and context reusability only; delimiter-free garbage keeps its cumulative length inside the source (documented validation scope)',
                     'producer + nbWorkers>=1 / long-distance matching: parameter_combination_unsupported or, when the input never reaches the parser, a valid frame made without calling the producer'],
    ),
    'C18': dict(
        level='exploration',
        batches=[dict(scenario='c18train', flavour='P', quick=8000, thorough=400000), dict(scenario='c18train', flavour='A', quick=1600, thorough=60000), dict(scenario='c18train', flavour='T', quick=320, thorough=12000)],
        rule='one training call per run over a generated sample set (10 set shapes: none, one sample, few tiny, all identical, two-letter alphabet, total below the minimums, one huge + crumbs, typical), capacity 0..112640, algorithm in {trainFromBuffer, cover, optimize_cover, fastCover, optimize_fastCover, legacy, finalizeDictionary, addEntropyTables}, parameter vector with a share outside the documented constraints; optimisers run 2-4 worker threads under the seeded scheduler in 3 runs out of 4; 1 run in 6 fails the k-th (and a later) libc allocation inside the trainer; runs with nbThreads<=1 are executed twice and compared; distinct = distinct plan signature; non-trivial = a dictionary was returned and checked, or an error came out of >=5 samples or an injected fault',
        real=REAL_COMMON + ['lib/dictBuilder/*.c (cover, fastcover, zdict, divsufsort) and the POOL they run on, unmodified, their threads scheduled by simsched'],
        stub=['none: loaders, compressor and decompressor used for the usability oracle are the real ones'],
        assumptions=['"documented no-dictionary result": a return of 0 is accepted for every trainer', 'fastCover f is clamped to 24 by the harness for f in 25..31 (2^f 4-byte counters are legal but exceed the sandbox); f > 31 is passed through as out-of-contract',
                     'a forced dictID is checked for every algorithm that takes ZDICT_params_t', 'round trips: all of the first 40 samples, then every 7th'],
    ),
    'C20': dict(
        level='exploration',
        batches=[dict(scenario='c20seek', flavour='P', quick=120000, thorough=3000000), dict(scenario='c20seek', flavour='A', quick=12000, thorough=300000)],
        rule='one archive per run: content 0..300 KiB (thorough 2 MiB), maxFrameSize in {1..64, 64..4 K, 1 K..200 K, 2^30, 0}, checksum flag, writer call history (input slices, output capacities down to 1 byte, explicit endFrame points, endStream into small buffers); reader on memory / stdio FILE (fopencookie) / callbacks in turn, 3-30 (thorough 60) range or whole-frame reads placed at random, continuing, frame-start, frame-end, backwards and tail positions; one run in three fails the k-th (and a later) storage operation, stdio reads may be short; one run in four corrupts the stored archive (6 kinds); distinct = distinct plan signature; non-trivial = the reader history ran (or a corrupted archive was refused at init)',
        real=REAL_COMMON + ['contrib/seekable_format/zstdseek_compress.c, zstdseek_decompress.c, unmodified'],
        stub=['the storage under the reader is the simulator (memory image with a fault plan, exposed as callbacks or as a FILE through fopencookie)', 'independent frame walk + independent decoder for the layout and conformance of the archive'],
        assumptions=['reads are generated with offset + length <= content size (property scope)', 'corrupted archives: memory safety and termination always; "never other bytes as success" is required only for whole-frame reads with checksums on when frame data (not the seek table) was damaged, because partial reads are verified only at the end of a frame',
                     'after a storage fault the failed operation must return an error and any later operation that reports success must return exact bytes; later operations may still fail only if a new fault is injected'],
    ),
}

# a thorough batch stops launching new work after this many seconds (evidence then says truncated=true and how many runs were done):
# the thorough tier is a budgeted search, not an enumeration, and must end in bounded time on any machine
THOROUGH_BATCH_WALL = int(os.environ.get('VERIF_THOROUGH_BATCH_WALL', '1500'))

def default_root(tier):
    s = os.environ.get('VERIF_SEED')
    if s:
        try: return int(s)
        except ValueError: return abs(hash(s)) % (1 << 31)
    return 1 if tier == 'quick' else 2

def run_check(prop, tier, extra_hook=None):
    cfg = CHECKS[prop]; root = default_root(tier); t0 = time.time()
    total = vlib.BatchResult(); batches_ev = []; fails = []
    for b in cfg['batches']:
        runs = b[tier]
        if runs <= 0: continue
        if b.get('corpus'): vlib.ensure_corpus(root & 0xffff, b['corpus'][tier])
        r = vlib.run_batch(b['flavour'], b['scenario'], root, runs, tier, workers=b.get('workers'), time_cap=b.get('time_cap_' + tier, THOROUGH_BATCH_WALL if tier == 'thorough' else None), cpu_cap=b.get('cpu_cap', 120))
        batches_ev.append(dict(scenario=b['scenario'], flavour=b['flavour'], runs=r.evaluations, distinct_nontrivial=r.nontrivial, wall_s=round(r.wall, 1),
                               distinct_schedules=len(r.sched_sigs), failures=len(r.failures), truncated=r.truncated))
        log('[%s] batch %s/%s: %d runs, %d distinct non-trivial, %d failures, %.1fs' % (prop, b['scenario'], b['flavour'], r.evaluations, r.nontrivial, len(r.failures), r.wall))
        fails += r.failures
        total.merge(r)
        total.hashes.update({(b['scenario'], b['flavour'], k): v for k, v in r.hashes.items()})
    violations = 0; known_printed = []; infra = []
    seen_cls = {}
    for f in fails:
        key = (f.scenario, f.cls)
        seen_cls[key] = seen_cls.get(key, 0) + 1
        if seen_cls[key] > 2: continue   # gate at most two representatives per class
        kind, info = vlib.gate_violation(prop, f)
        if kind == 'violation':
            violations += 1
            print('VIOLATION property=%s replay=%s' % (prop, info), flush=True)
            log('   class=%s msg=%s' % (f.cls, f.msg[:400]))
        elif kind == 'known':
            if info['id'] not in known_printed:
                known_printed.append(info['id'])
                print('KNOWN-FINDING: property=%s %s' % (prop, info['what']), flush=True)
        else:
            infra.append(info); log('[%s] INFRASTRUCTURE: %s' % (prop, info))
    # soft findings noted by scenarios (kf=<key> on END lines) must be listed, else they are violations
    kfs = vlib.load_known_findings()
    for key, idxs in total.kf.items():
        ent = [k for k in kfs if k.get('status') == 'known' and k.get('property') == prop and k.get('key') == key]
        if ent:
            if ent[0]['id'] not in known_printed:
                known_printed.append(ent[0]['id'])
                print('KNOWN-FINDING: property=%s %s' % (prop, ent[0]['what']), flush=True)
        else:
            infra.append('scenario noted finding key %s with no entry in known_findings.jsonl' % key)
    samples = []
    for b in cfg['batches'][:2]:
        for i in (0, 1):
            try: samples.append(dict(scenario=b['scenario'], run=i, plan=vlib.gen_plan(b['flavour'], b['scenario'], root, i, tier)[:40]))
            except Exception as e: pass
    wall = time.time() - t0
    cov = dict(evaluations=total.evaluations, distinct_nontrivial=len(total.sigs), rule=cfg['rule'], samples=samples or ['(none)'],
               runs_per_hour=int(total.evaluations / max(wall, 0.001) * 3600), simulated_steps=total.probes.get('sched.steps', 0),
               context_switches=total.probes.get('sched.switches', 0), scheduling_choices=total.probes.get('sched.choices', 0),
               distinct_schedule_signatures=len(total.sched_sigs), faults_fired=total.faults, probes=total.probes, batches=batches_ev,
               components_real=cfg.get('real', REAL_COMMON), components_stub=cfg.get('stub', STUB_COMMON),
               known_findings_printed=known_printed, benign_client_deadlocks=total.benign_restarts, exhaustive=False)
    if cfg.get('coverage_extra'): cov.update(cfg['coverage_extra'](total))
    vlib.write_evidence(prop, tier, root, cfg['level'], cov, wall, violations, cfg.get('assumptions', []))
    log('[%s] %s: %d runs, %d distinct non-trivial, %d violations, %d infra, %.1fs' % (prop, tier, total.evaluations, len(total.sigs), violations, len(infra), wall))
    if violations: return 1
    if infra: return 2
    if total.evaluations == 0: log('no runs executed'); return 2
    return 0

def selftest(seeds=300):
    """Determinism proof: every scenario, same root, different worker counts and repeated: event-log hashes must agree."""
    bad = 0
    for prop, cfg in CHECKS.items():
        for b in cfg['batches']:
            if b['flavour'] not in ('P', 'T'): continue
            n = seeds if b['flavour'] == 'P' else max(40, seeds // 5)
            maps = []
            for workers in (1 if n <= 60 else 3, 8, 16, 16):
                r = vlib.run_batch(b['flavour'], b['scenario'], 7, n, 'quick', workers=workers)
                maps.append(dict(r.hashes))
            for m in maps[1:]:
                diff = [k for k in maps[0] if maps[0].get(k) != m.get(k)]
                if diff or len(m) != len(maps[0]):
                    bad += 1; print('NONDETERMINISM %s/%s: %d of %d runs differ, e.g. run %s' % (b['scenario'], b['flavour'], len(diff), len(maps[0]), diff[:3]))
            print('selftest %s/%s: %d runs x 4 executions (1/3, 8, 16, 16 workers): %s' % (b['scenario'], b['flavour'], len(maps[0]), 'identical' if not bad else 'DIFFER'), flush=True)
    return 2 if bad else 0

def main(argv):
    if not argv: print(__doc__); return 2
    cmd = argv[0]
    try:
        if cmd == 'setup':
            flav = sorted({b['flavour'] for c in CHECKS.values() for b in c['batches']})
            for f in flav: vlib.build(f)
            vlib.build_cli(); vlib.build_decodecorpus()
            print('setup ok: flavours', ' '.join(flav)); return 0
        if cmd == 'selftest':
            return selftest(int(argv[1]) if len(argv) > 1 else 300)
        if cmd == 'check':
            prop = argv[1]; tier = os.environ.get('VERIF_TIER', 'quick'); replay = None
            i = 2
            while i < len(argv):
                if argv[i] == '--tier': tier = argv[i + 1]; i += 2
                elif argv[i] == '--replay': replay = argv[i + 1]; i += 2
                else: i += 1
            if replay:
                if json.load(open(replay)).get('engine') == 'clisim':
                    import clisim; return clisim.replay(replay)
                return vlib.replay_file(replay)
            if prop == 'C19':
                import clisim; return clisim.check('C19', tier, default_root(tier), 160 if tier == 'quick' else 3000)
            if prop not in CHECKS: print('no check for', prop); return 2
            return run_check(prop, tier)
    except vlib.BuildError as e:
        log('BUILD ERROR:\n' + str(e)); return 2
    print('unknown command', cmd); return 2
