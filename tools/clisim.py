#!/usr/bin/env python3
"""clisim.py — C19: the zstd command-line tool under process death at every file-system step.
The system under simulation is the real `zstd` binary built from /repo (its threads run under simsched, so the
system-call sequence is a function of the seed); the supervisor (cli/clisup.c, ptrace) counts the file-system-mutating
system calls of the process tree and kills (SIGKILL / SIGINT) the tree at the entry of the k-th one, for EVERY k.
After each kill, and at the normal end, the directory is compared with a model of what the user owns."""
import os, sys, json, random, shutil, subprocess, hashlib, time, tempfile
from concurrent.futures import ThreadPoolExecutor
import vlib
from vlib import log

SHM = '/dev/shm' if os.path.isdir('/dev/shm') else tempfile.gettempdir()

def content(kind, size, seed):
    r = random.Random('c:%s:%d:%d' % (kind, size, seed))
    if size == 0: return b''
    if kind == 'random': return r.randbytes(size)
    if kind == 'zeros':   # zero-run layouts for the sparse writer: runs of zeros around 32 KiB boundaries with islands of data
        out = bytearray()
        while len(out) < size:
            if r.random() < 0.6: out += bytes(r.choice([1, 4095, 4096, 32768, 32769, 65536, 100000]))
            else: out += r.randbytes(r.choice([1, 7, 512, 4096, 20000]))
        return bytes(out[:size])
    words = [b'the ', b'zstd ', b'frame ', b'block ', b'window ', b'\n', b'0123456789', b'<div>', b'{"k":"v"},']
    out = bytearray()
    while len(out) < size: out += r.choice(words)
    return bytes(out[:size])

SIZES = [0, 1, 37, 4000, 150000, 400000, 1200000]

def gen_case(root, i, tier):
    r = random.Random('case:%s:%d' % (root, i))
    op = r.choice(['c', 'c', 'c', 'd', 'd', 't'])
    n = r.choice([1, 1, 1, 2, 3])
    spec = dict(idx=i, op=op, files=[], flags=[], sched_seed=r.randrange(1, 1 << 30))
    for f in range(n):
        kind = r.choice(['random', 'text', 'text', 'zeros']); size = r.choice(SIZES if tier == 'thorough' else SIZES[:-1] + [400000])
        fs = dict(name='f%d' % f, kind=kind, size=size, seed=r.randrange(1 << 30))
        if op in 'dt': fs['variant'] = r.choices(['valid', 'corrupt', 'trunc', 'garbage', 'tail'], [6, 2, 2, 1, 1])[0]   # tail: 1-3 stray bytes after the last frame (less than a magic number)
        spec['files'].append(fs)
    fl = spec['flags']
    if r.random() < 0.5 and op != 't': fl.append('--rm')
    if r.random() < 0.3: fl.append('-f')
    if op == 'c':
        fl.append('-%d' % r.choice([1, 1, 2, 3, 5]))
        if r.random() < 0.1: fl.append('--long')
    fl.append(r.choice(['-T0', '-T1', '-T2', '--single-thread'])) if op == 'c' else None
    if r.random() < 0.25: fl.append('--no-asyncio')
    if op == 'd': fl.append(r.choice(['--sparse', '--no-sparse', '']))
    spec['flags'] = [x for x in fl if x]
    if r.random() < 0.2: spec['dict'] = dict(size=r.choice([500, 8000, 60000]), seed=r.randrange(1 << 30))
    if op != 't':
        x = r.random()
        if n == 1 and x < 0.2: spec['out'] = 'explicit.out'
        elif n == 1 and x < 0.3: spec['stdout'] = 'stdout.bin'
        elif x < 0.45: spec['outdir'] = 'outd'
        if r.random() < 0.3: spec['preexisting'] = True
    return spec

def dest_of(spec, fs):
    if spec['op'] == 't': return None
    src = fs['name'] + ('.zst' if spec['op'] == 'd' else '')
    if spec.get('stdout'): return spec['stdout']
    if spec.get('out'): return spec['out']
    base = fs['name'] if spec['op'] == 'd' else fs['name'] + '.zst'
    if spec.get('outdir'): return os.path.join(spec['outdir'], base)
    return base

class Env:
    def __init__(self, cdir): self.cdir = cdir; self.zstd = os.path.join(cdir, 'zstd'); self.sup = os.path.join(cdir, 'clisup'); self.zcheck = os.path.join(cdir, 'zcheck')

def library_verdict(env, path, dictpath, long_mode=False):
    out = path + '.libdecode'
    cmd = [env.zcheck, path, '--out', out] + (['--dict', dictpath] if dictpath else []) + (['--long'] if long_mode else [])
    r = subprocess.run(cmd, stdout=subprocess.PIPE, stderr=subprocess.PIPE, text=True)
    ok = r.stdout.startswith('OK')
    data = open(out, 'rb').read() if ok and os.path.exists(out) else None
    if os.path.exists(out): os.unlink(out)
    return ok, data, r.stdout.strip()

def materialize(env, spec, d):
    """create the directory state; returns model: sources {path: bytes}, expected {src: decoded bytes or None}, pre {dest: bytes}"""
    os.makedirs(d, exist_ok=True)
    model = dict(sources={}, orig={}, expect={}, pre={}, dictpath=None)
    if spec.get('dict'):
        dp = os.path.join(d, 'the.dict'); open(dp, 'wb').write(content('text', spec['dict']['size'], spec['dict']['seed'])); model['dictpath'] = dp
    if spec.get('outdir'): os.makedirs(os.path.join(d, spec['outdir']), exist_ok=True)
    for fs in spec['files']:
        raw = content(fs['kind'], fs['size'], fs['seed'])
        if spec['op'] == 'c':
            p = os.path.join(d, fs['name']); open(p, 'wb').write(raw); model['sources'][fs['name']] = raw; model['orig'][fs['name']] = raw
        else:
            tmp = os.path.join(d, fs['name'] + '.rawtmp'); open(tmp, 'wb').write(raw)
            zp = os.path.join(d, fs['name'] + '.zst')
            cmd = [env.zstd, '-q', '-f', '-3', '--single-thread', '--no-asyncio', tmp, '-o', zp] + (['-D', model['dictpath']] if model['dictpath'] else [])
            subprocess.run(cmd, stdout=subprocess.DEVNULL, stderr=subprocess.DEVNULL, cwd=d)
            os.unlink(tmp)
            z = open(zp, 'rb').read(); zvalid = z; v = fs.get('variant', 'valid'); rr = random.Random('v:%d' % fs['seed'])
            if v == 'corrupt' and len(z) > 12: z = bytearray(z); z[rr.randrange(6, len(z))] ^= 0x5A; z = bytes(z)
            elif v == 'trunc' and len(z) > 6: z = z[:rr.randrange(5, len(z))]
            elif v == 'garbage': z = z + b'\x11\x22\x33trailing-garbage'
            elif v == 'tail': z = z + b'\x28\xb5\x2f'[:1 + rr.randrange(3)]
            open(zp, 'wb').write(z)
            model['sources'][fs['name'] + '.zst'] = z; model['orig'][fs['name']] = raw
            ok, data, msg = library_verdict(env, zp, model['dictpath'])
            model['expect'][fs['name'] + '.zst'] = data if ok else None
            # documented pass-through: 'zstd -d -f -c' copies bytes of an unrecognised format to stdout as they are, so a valid frame
            # followed by trailing garbage or by 1-3 stray bytes is accepted (frame decoded, the rest copied) although the library rejects the file as a whole
            if v in ('garbage', 'tail') and spec['op'] == 'd' and '-f' in spec['flags'] and spec.get('stdout'): model['expect'][fs['name'] + '.zst'] = raw + z[len(zvalid):]
        if spec.get('preexisting') and not spec.get('stdout'):   # with -c the 'destination' is the caller's stdout redirection, not zstd's business
            dp = dest_of(spec, fs)
            if dp and dp not in model['pre']:
                old = b'PRE-EXISTING DESTINATION ' + fs['name'].encode() * 20
                open(os.path.join(d, dp), 'wb').write(old); model['pre'][dp] = old
    return model

def cli_args(env, spec, model):
    a = [env.zstd, '-q'] + list(spec['flags'])
    if spec['op'] == 'd': a.append('-d')
    if spec['op'] == 't': a.append('-t')
    if model['dictpath']: a += ['-D', 'the.dict']
    if spec.get('out'): a += ['-o', spec['out']]
    if spec.get('stdout'): a.append('-c')
    if spec.get('outdir'): a += ['--output-dir-flat', spec['outdir']]
    a += [fs['name'] + ('.zst' if spec['op'] in 'dt' else '') for fs in spec['files']]
    return a

def run_sup(env, spec, model, d, mode=None, k=0, list_calls=False):
    cmd = [env.sup, '--dir', d]
    if spec.get('stdout'): cmd += ['--stdout', os.path.join(d, spec['stdout'])]
    if mode == 'intx': cmd += ['--intx', str(k[0]), '--advance', str(k[1])]
    elif mode: cmd += ['--' + mode, str(k)]
    if list_calls: cmd.append('--list')
    cmd += ['--'] + cli_args(env, spec, model)
    envv = dict(os.environ, VERIF_SCHED_SEED=str(spec['sched_seed']))
    try:
        r = subprocess.run(cmd, stdout=subprocess.PIPE, stderr=subprocess.PIPE, text=True, env=envv, timeout=120)
    except subprocess.TimeoutExpired:
        return dict(count=-1, fired=0, exit=-2, signal=0, at='timeout', calls='')
    line = [l for l in r.stdout.splitlines() if l.startswith('RESULT')]
    if not line: return dict(count=-1, fired=0, exit=-3, signal=0, at='no-result', calls=r.stderr[-500:])
    kv = dict(x.split('=', 1) for x in line[0].split()[1:])
    return dict(count=int(kv['count']), fired=int(kv['fired']), exit=int(kv['exit']), signal=int(kv['signal']), at=kv['at'], calls=r.stderr)

def read(p):
    try: return open(p, 'rb').read()
    except OSError: return None

def dest_complete(env, spec, model, d, fs):
    """is the destination of this source a complete, correct result?"""
    dp = dest_of(spec, fs)
    if dp is None: return False
    data = read(os.path.join(d, dp))
    if data is None: return False
    if spec['op'] == 'c':
        ok, dec, _ = library_verdict(env, os.path.join(d, dp), model['dictpath'], long_mode='--long' in spec['flags'])
        return ok and dec == model['orig'][fs['name']]
    exp = model['expect'].get(fs['name'] + '.zst')
    return exp is not None and data == exp

def check_safety(env, spec, model, d, where):
    """I1 / I2 after any instant (kill point or end). returns list of (class, message)."""
    v = []
    rm = '--rm' in spec['flags'] and not spec.get('stdout')
    for fs in spec['files']:
        sname = fs['name'] + ('.zst' if spec['op'] in 'dt' else '')
        cur = read(os.path.join(d, sname))
        if cur is None:
            if not rm: v.append(('source_lost', '%s: source %s disappeared although --rm was not given' % (where, sname)))
            elif not dest_complete(env, spec, model, d, fs): v.append(('source_lost', '%s: source %s was removed but its destination %s is missing or incomplete' % (where, sname, dest_of(spec, fs))))
        elif cur != model['sources'][sname]:
            v.append(('source_modified', '%s: source %s no longer has its original bytes' % (where, sname)))
    if '-f' not in spec['flags']:
        for dp, old in model['pre'].items():
            if read(os.path.join(d, dp)) != old: v.append(('clobbered', '%s: pre-existing %s was modified or removed without -f' % (where, dp)))
    return v

def expected_ok(env, spec, model, fs):
    """would an undisturbed run produce a complete destination of its own for this source?"""
    sname = fs['name'] + ('.zst' if spec['op'] in 'dt' else '')
    dp = dest_of(spec, fs)
    if dp is None or spec['op'] == 't': return False
    if (spec.get('out') or spec.get('stdout')) and len(spec['files']) > 1: return False
    refused = dp in model['pre'] and '-f' not in spec['flags'] and not spec.get('stdout')
    ok_lib = True if spec['op'] == 'c' else model['expect'].get(sname) is not None
    return ok_lib and not refused

def check_end(env, spec, model, d, res):
    """end-state oracle of an undisturbed run"""
    v = check_safety(env, spec, model, d, 'end')
    accept_all = True
    for fs in spec['files']:
        sname = fs['name'] + ('.zst' if spec['op'] in 'dt' else '')
        dp = dest_of(spec, fs)
        refused = dp in model['pre'] and '-f' not in spec['flags'] and not spec.get('stdout')
        if spec['op'] == 'c': ok_lib = True
        else: ok_lib = model['expect'].get(sname) is not None
        accept = ok_lib and not refused
        accept_all &= accept
        if spec['op'] == 't' or dp is None: continue
        many_to_one = (spec.get('out') or spec.get('stdout')) and len(spec['files']) > 1
        if accept and not many_to_one:
            if not dest_complete(env, spec, model, d, fs): v.append(('wrong_output', 'end: %s succeeded but destination %s is missing, incomplete or differs from the library decode' % (sname, dp)))
        if not ok_lib and dp not in model['pre'] and not spec.get('stdout'):
            if read(os.path.join(d, dp)) is not None: v.append(('artefact_left', 'end: %s is rejected by the library but a destination file %s was left behind' % (sname, dp)))
    if (res['exit'] == 0) != accept_all:
        v.append(('exit_status', 'end: exit status %d but the library/overwrite verdict is %s' % (res['exit'], 'accept' if accept_all else 'reject')))
    return v

def run_case(env, spec, tier, only=None):
    """full enumeration for one invocation; returns dict(evals, kills, violations=[...], N)"""
    base = tempfile.mkdtemp(prefix='clisim-', dir=SHM); out = dict(evals=0, kills=0, sigints=0, N=0, violations=[], nondet=0)
    try:
        d0 = os.path.join(base, 'dry'); model = materialize(env, spec, d0)
        res = run_sup(env, spec, model, d0, list_calls=True); out['evals'] += 1; N = res['count']; out['N'] = N
        if N < 0: out['violations'].append(dict(cls='hang', msg='dry run: ' + res['at'], mode='none', k=0)); return out
        for cls, msg in check_end(env, spec, model, d0, res): out['violations'].append(dict(cls=cls, msg=msg, mode='none', k=0))
        modes = [('kill', k) for k in range(1, N + 1)]
        if tier == 'thorough' or spec['idx'] % 3 == 0: modes += [('int', k) for k in range(1, N + 1)]
        # storage faults: the k-th file-system-mutating call fails with ENOSPC (full disk) or EIO without being executed
        if tier == 'thorough' or spec['idx'] % 6 == 1: modes += [('enospc', k) for k in range(1, N + 1)]
        if tier == 'thorough' or spec['idx'] % 6 == 4: modes += [('eio', k) for k in range(1, N + 1)]
        if only: modes = [only]
        for mode, k in modes:
            dk = os.path.join(base, '%s%d' % (mode, k)); mk = materialize(env, spec, dk)
            rk = run_sup(env, spec, mk, dk, mode=mode, k=k); out['evals'] += 1
            if mode == 'kill': out['kills'] += 1
            elif mode == 'int': out['sigints'] += 1
            else: out['ioerrs'] = out.get('ioerrs', 0) + 1
            if rk['count'] < 0: out['violations'].append(dict(cls='hang', msg='%s at mutating call %d/%d: %s' % (mode, k, N, rk['at']), mode=mode, k=k)); shutil.rmtree(dk, ignore_errors=True); continue
            if not rk['fired']:
                if rk['count'] != N: out['nondet'] += 1
            where = '%s at mutating call %d/%d (%s)' % ({'kill': 'SIGKILL', 'int': 'SIGINT', 'enospc': 'ENOSPC', 'eio': 'EIO'}[mode], k, N, rk['at'])
            for cls, msg in check_safety(env, spec, mk, dk, where): out['violations'].append(dict(cls=cls, msg=msg, mode=mode, k=k))
            if mode == 'int' and rk['fired']:
                for fs in spec['files']:
                    dp = dest_of(spec, fs)
                    # an EMPTY destination can remain when the signal lands between creating the file and arming zstd's
                    # artefact handler (addHandler() follows FIO_openDstFile()); the property's crash clause only demands data safety there
                    if dp and dp not in mk['pre'] and not spec.get('stdout') and (read(os.path.join(dk, dp)) or b'') != b'' and not dest_complete(env, spec, mk, dk, fs):
                        out['violations'].append(dict(cls='sigint_artefact', msg='%s: partial destination %s left behind' % (where, dp), mode=mode, k=k))
            if mode in ('enospc', 'eio') and rk['fired']:
                # the run went to its end with one failed call: exit 0 only if nothing was lost; a failed operation leaves no output behind
                incomplete = [dest_of(spec, fs) for fs in spec['files'] if dest_of(spec, fs) and not dest_complete(env, spec, mk, dk, fs)]
                if rk['exit'] == 0 and incomplete and spec['op'] != 't' and not spec.get('stdout'):
                    ok_verdicts = [fs for fs in spec['files'] if dest_of(spec, fs) in incomplete and expected_ok(env, spec, mk, fs)]
                    if ok_verdicts: out['violations'].append(dict(cls='ioerror_swallowed', msg='%s: exit status 0 although %s is missing or incomplete' % (where, incomplete[0]), mode=mode, k=k))
                if rk['exit'] != 0:
                    for fs in spec['files']:
                        dp = dest_of(spec, fs)
                        if dp and dp not in mk['pre'] and not spec.get('stdout') and (read(os.path.join(dk, dp)) or b'') != b'' and not dest_complete(env, spec, mk, dk, fs):
                            out['violations'].append(dict(cls='ioerror_artefact', msg='%s: zstd exits %d and leaves the partial destination %s behind' % (where, rk['exit'], dp), mode=mode, k=k)); break
            shutil.rmtree(dk, ignore_errors=True)
            if len([v for v in out['violations'] if v['cls'] != 'ioerror_artefact']) > 3: break
    finally:
        shutil.rmtree(base, ignore_errors=True)
    return out

def check(prop, tier, root, ncases):
    t0 = time.time(); cdir = vlib.build_cli(); env = Env(cdir)
    specs = [gen_case(root, i, tier) for i in range(ncases)]
    tot = dict(evals=0, kills=0, sigints=0, ioerrs=0, cases=0, nondet=0); fails = []; sigs = set(); Ns = []
    with ThreadPoolExecutor(max_workers=vlib.NCPU) as ex:
        for spec, out in zip(specs, ex.map(lambda s: run_case(env, s, tier), specs)):
            tot['cases'] += 1
            for k in ('evals', 'kills', 'sigints', 'nondet'): tot[k] += out[k]
            tot['ioerrs'] += out.get('ioerrs', 0)
            Ns.append(out['N']); sigs.add(json.dumps([spec['op'], spec['flags'], [(f['kind'], f['size'], f.get('variant')) for f in spec['files']], bool(spec.get('dict')), spec.get('out'), spec.get('stdout'), spec.get('outdir'), spec.get('preexisting')], sort_keys=True))
            for v in out['violations']: fails.append((spec, v))
    violations = 0; known = []; infra = []
    seen = {}
    for spec, v in fails:
        seen[v['cls']] = seen.get(v['cls'], 0) + 1
        if seen[v['cls']] > 2: continue
        # gate: reproduce twice in fresh directories
        only = None if v['mode'] == 'none' else (v['mode'], v['k'])
        a = run_case(env, spec, tier, only=only or ('kill', 10 ** 9)); b = run_case(env, spec, tier, only=only or ('kill', 10 ** 9))
        ca = sorted(x['cls'] for x in a['violations']); cb = sorted(x['cls'] for x in b['violations'])
        if v['cls'] not in ca or ca != cb: infra.append('violation %s of case %d did not reproduce identically (%s / %s)' % (v['cls'], spec['idx'], ca, cb)); continue
        kf = [k for k in vlib.load_known_findings() if k.get('status') == 'known' and k.get('property') == prop and k.get('class') == v['cls']]
        if kf:
            if kf[0]['id'] not in known: known.append(kf[0]['id']); print('KNOWN-FINDING: property=%s %s' % (prop, kf[0]['what']), flush=True)
            continue
        os.makedirs(vlib.REPLAYS, exist_ok=True)
        path = os.path.join(vlib.REPLAYS, '%s-clisim-%d-%s-%d.json' % (prop, spec['idx'], v['mode'], v['k']))
        json.dump(dict(property=prop, engine='clisim', root=root, tier=tier, spec=minimise(env, spec, v, tier), original_spec=spec, mode=v['mode'], k=v['k'], violation_class=v['cls'], message=v['msg'],
                       replay_cmd='./run check %s --replay %s' % (prop, path)), open(path, 'w'), indent=1)
        violations += 1; print('VIOLATION property=%s replay=%s' % (prop, path), flush=True); log('   class=%s msg=%s' % (v['cls'], v['msg']))
    wall = time.time() - t0
    samples = [dict(case=s['idx'], argv=' '.join(cli_args(Env('<cli>'), s, dict(dictpath=s.get('dict')))), files=s['files'], preexisting=bool(s.get('preexisting'))) for s in specs[:3]]
    cov = dict(evaluations=tot['evals'], distinct_nontrivial=len(sigs), rule='one evaluation = one supervised execution of the real zstd binary (dry run, or killed/interrupted at one mutating system call); per invocation EVERY k in 1..N is killed with SIGKILL (and, for a third of the invocations, every k is interrupted with SIGINT; for another third every k is made to fail with ENOSPC or EIO without being executed; all of these for every invocation in thorough); distinct = distinct invocation shapes (operation, flags, file kinds/sizes/variants, dictionary, output mode, pre-existing destination); non-trivial = every shape runs at least its dry run + N kills',
               samples=samples, invocations=tot['cases'], kill_points=tot['kills'], sigint_points=tot['sigints'], mutating_calls_per_invocation=dict(min=min(Ns) if Ns else 0, max=max(Ns) if Ns else 0, mean=round(sum(Ns) / max(1, len(Ns)), 1)),
               runs_per_hour=int(tot['evals'] / max(wall, 0.001) * 3600), faults_fired=dict(sigkill_at_syscall=tot['kills'], sigint_at_syscall=tot['sigints'], enospc_or_eio_at_syscall=tot['ioerrs']), nondeterministic_counts=tot['nondet'], exhaustive=True,
               components_real=['programs/*.c + lib/ built from /repo (real zstd CLI)', 'kernel file system (tmpfs under /dev/shm)'], components_stub=['pthread primitives inside the CLI (simsched: deterministic system-call order)', 'process death / signals (ptrace supervisor cli/clisup.c)', 'library verdict helper cli/zcheck.c'],
               known_findings_printed=known)
    vlib.write_evidence(prop, tier, root, 'fault_enumeration', cov, wall, violations, ['crash model = process death (SIGKILL) or SIGINT at the entry of a file-system-mutating system call; storage-fault model = that call returns ENOSPC / EIO without being executed (the process goes on); power loss with unsynced page cache is not modelled (zstd never fsyncs and the property does not claim it)', 'writes to fd 1/2 are not kill points', 'the library verdict comes from cli/zcheck.c (streaming decode with the same dictionary)'])
    log('[%s] %s: %d invocations, %d supervised executions (%d kill points, %d SIGINT points, %d failed-call points), %d violations, %d infra, %.1fs' % (prop, tier, tot['cases'], tot['evals'], tot['kills'], tot['sigints'], tot['ioerrs'], violations, len(infra), wall))
    for i in infra: log('[%s] INFRASTRUCTURE: %s' % (prop, i))
    if violations: return 1
    if infra or tot['nondet'] > tot['evals'] // 50: return 2
    return 0

def minimise(env, spec, v, tier):
    """greedy: drop optional flags / extra files / dictionary while the same class persists at some kill point"""
    cur = json.loads(json.dumps(spec))
    def still(s):
        o = run_case(env, s, tier, only=None if v['mode'] != 'none' else ('kill', 10 ** 9))
        return any(x['cls'] == v['cls'] for x in o['violations'])
    for fl in list(cur['flags']):
        if fl in ('--rm', '-f'): continue
        t = json.loads(json.dumps(cur)); t['flags'].remove(fl)
        if still(t): cur = t
    while len(cur['files']) > 1:
        t = json.loads(json.dumps(cur)); t['files'].pop()
        if still(t): cur = t
        else: break
    if cur.get('dict'):
        t = json.loads(json.dumps(cur)); t.pop('dict')
        if still(t): cur = t
    return cur

def replay(path):
    d = json.load(open(path)); cdir = vlib.build_cli(); env = Env(cdir)
    only = None if d['mode'] == 'none' else (d['mode'], d['k'])
    for spec in (d['spec'], d['original_spec']):
        o = run_case(env, spec, d.get('tier', 'quick'), only=only or ('kill', 10 ** 9))
        hit = [x for x in o['violations'] if x['cls'] == d['violation_class']]
        if hit:
            print('replay: %s' % hit[0]['msg']); print('VIOLATION property=%s replay=%s' % (d['property'], path)); return 1
    print('replay did not reproduce', d['violation_class']); return 0
