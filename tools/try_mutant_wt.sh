#!/bin/bash
# usage: tools/try_mutant_wt.sh <patched-worktree-of-/repo> <tier> <Cxx> [Cyy ...]
# runs the checks against a patched scratch worktree (VERIF_REPO) instead of /repo: safe while other checks use /repo
set -u
WT=$1; TIER=$2; shift 2
for C in "$@"; do
  echo "=== $C ($TIER) against $WT"
  ( cd /verif && VERIF_REPO=$WT VERIF_EVID_DIR=/tmp/mutant_evidence ./run check $C --tier $TIER 2>&1 | grep -v "^\[build" | cut -c1-600 | grep "VIOLATION\|KNOWN\|class=\|quick:\|thorough:\|INFRA" | head -12 )
done
