#!/bin/bash
# usage: tools/try_mutant.sh <patch.diff> <tier> <Cxx> [Cyy ...]   — applies the patch to /repo, runs the checks, restores /repo
set -u
P=$1; TIER=$2; shift 2
cd /repo || exit 2
git diff --quiet || { echo "/repo has uncommitted changes"; exit 2; }
git apply "$P" || { echo "patch does not apply"; exit 2; }
for C in "$@"; do
  echo "=== $C ($TIER) with $(basename $(dirname $P))/$(basename $P)"
  ( cd /verif && VERIF_EVID_DIR=/tmp/mutant_evidence ./run check $C --tier $TIER 2>&1 | grep -v "^\[build" | cut -c1-600 | grep "VIOLATION\|KNOWN\|class=\|quick:\|thorough:\|INFRA" | head -12 )
done
git checkout -- . ; git status --short | head -3
