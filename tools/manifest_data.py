HOOK_COMMITS = []
NOTES = ('Technique: deterministic simulation with fault injection. One seed decides plan, faults and schedule; violations are gated by '
         'two identical fresh-process replays and minimised (ops, arguments, schedule decisions). Repairs of genuine defects in /repo are '
         'separate "fix:" commits listed in known_findings.jsonl.')
NOT_APPLICABLE = {
 'C01': 'pure function of (input, parameters): no schedule, call history, fault, clock or shared state for a simulator to control; seeded input generation alone would not be simulation (DESIGN.md section 4, C01)',
}
CLAIMS = {
 'C11': dict(level='exploration', design_ref='DESIGN.md section 4 C11, section 2.2',
   technique='deterministic simulation: seeded schedule search over real zstdmt/pool threads behind the pthread seam, fault injection (spurious wake-ups, pthread_create failure, allocation failure), ThreadSanitizer/ASan flavours, independent-decoder oracle',
   text='Seeded search over MT sessions (1-3 frames per context, per-frame worker counts, dictionaries/prefix/CDict, mid-frame level changes, abandoned frames + reset, free mid-frame) x schedules x fault plans on the real zstdmt_compress.c/pool.c; scheduler monitors deadlock, livelock, sync misuse and thread leaks; every completed frame round-trips through the library decoder and is accepted by an independent decoder; same runs under ThreadSanitizer (race freedom, which also justifies exploring interleavings only at synchronisation operations) and ASan/UBSan. Sampling: evidence, not proof.',
   note='pthread primitives simulated with POSIX semantics; fairness forced after 500 decisions of starvation (zstd busy-waits on tryAdd); TSan shadow history is bounded; inputs up to 3 MiB (quick) / 6 MiB (thorough), up to 4 workers.'),
 'C13': dict(level='fault_enumeration', design_ref='DESIGN.md section 4 C13, section 2.3',
   technique='deterministic simulation with exhaustive allocation-fault enumeration: for each API scenario the k-th allocation (custom allocator seam, or libc via --wrap for trainers/default allocator) fails, for every k, under a fixed simulated schedule',
   text='For each of 16 API scenarios (contexts, dictionaries, CDict/DDict, ST/MT one-shot and streaming incl. worker-count growth, DStream growth, multi-DDict, prefix+LDM, MT/ST alternation, cover/fastCover/legacy/finalize trainers, default-allocator MT context) the allocation count n is measured fault-free under the run\'s own schedule and then every k in 1..n is failed in turn (thorough: several variants and a second fault); oracle: no crash/sanitizer report, NULL or error code, live set empty and no wrong-deallocator free after the objects are freed, and after ZSTD_CCtx_reset/ZSTD_DCtx_reset the same operation succeeds and round-trips.',
   note='Exhaustive over k per (scenario, variant) only; the catalogue is a sample of the API; MT allocation order is fixed by the simulated schedule, other schedules give other orders (thorough varies the schedule seed per variant).'),
 'C12': dict(level='exploration', design_ref='DESIGN.md section 4 C12, section 2.2',
   technique='deterministic simulation: seeded schedule search (random walk / PCT / sticky / starve) over the real pool with spurious-wakeup and thread-creation faults, pool reference model as oracle, TSan+ASan flavours',
   text='Seeded search over client programs x pool configurations x schedules of the real lib/common/pool.c with every synchronisation operation decided by the simulator; each accepted job checked against a pool model (exactly once, join post-condition, free joins all, no leak), quiescent states classified against the model (lost wake-up vs inherent client deadlock); same runs under ThreadSanitizer and AddressSanitizer. Sampling, not exhaustive enumeration: a clean batch is evidence, not proof.',
   note='Interleavings only at synchronisation operations (sound if race-free, which the TSan flavour checks on the same runs); client grammar excludes posting concurrently with POOL_free and joinJobs from inside a job; pthread primitives are simulated (POSIX semantics incl. signal-wakes-any-one-waiter and spurious wake-ups).'),
}
