HOOK_COMMITS = []
NOTES = ('Technique: deterministic simulation with fault injection. One seed decides plan, faults and schedule; violations are gated by '
         'two identical fresh-process replays and minimised (ops, arguments, schedule decisions). Repairs of genuine defects in /repo are '
         'separate "fix:" commits listed in known_findings.jsonl.')
NOT_APPLICABLE = {
 'C01': 'pure function of (input, parameters): no schedule, call history, fault, clock or shared state for a simulator to control; seeded input generation alone would not be simulation (DESIGN.md section 4, C01)',
}
CLAIMS = {
 'C12': dict(level='exploration', design_ref='DESIGN.md section 4 C12, section 2.2',
   technique='deterministic simulation: seeded schedule search (random walk / PCT / sticky / starve) over the real pool with spurious-wakeup and thread-creation faults, pool reference model as oracle, TSan+ASan flavours',
   text='Seeded search over client programs x pool configurations x schedules of the real lib/common/pool.c with every synchronisation operation decided by the simulator; each accepted job checked against a pool model (exactly once, join post-condition, free joins all, no leak), quiescent states classified against the model (lost wake-up vs inherent client deadlock); same runs under ThreadSanitizer and AddressSanitizer. Sampling, not exhaustive enumeration: a clean batch is evidence, not proof.',
   note='Interleavings only at synchronisation operations (sound if race-free, which the TSan flavour checks on the same runs); client grammar excludes posting concurrently with POOL_free and joinJobs from inside a job; pthread primitives are simulated (POSIX semantics incl. signal-wakes-any-one-waiter and spurious wake-ups).'),
}
