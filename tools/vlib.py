#!/usr/bin/env python3
"""vlib.py — build cache, worker fan-out, gating, minimisation, evidence for the zstd simulator.
python3 stdlib only."""
import os, sys, json, hashlib, subprocess, time, re, shutil, fcntl, glob, tempfile, signal
from concurrent.futures import ThreadPoolExecutor

VERIF = os.path.dirname(os.path.dirname(os.path.abspath(__file__)))
REPO = os.environ.get('VERIF_REPO', '/repo')
CACHE = os.path.join(VERIF, '.cache')
EVID = os.environ.get('VERIF_EVID_DIR') or os.path.join(VERIF, 'evidence')   # mutant trials write their evidence elsewhere
REPLAYS = os.path.join(os.environ['VERIF_EVID_DIR'], 'replays') if os.environ.get('VERIF_EVID_DIR') else os.path.join(VERIF, 'replays')
CC = 'clang'
NCPU = os.cpu_count() or 8

LIB_DIRS = ['lib/common', 'lib/compress', 'lib/decompress', 'lib/dictBuilder', 'lib/legacy', 'lib/deprecated']
EXTRA_SRC = ['contrib/seekable_format/zstdseek_compress.c', 'contrib/seekable_format/zstdseek_decompress.c']
INC = ['lib', 'lib/common', 'lib/compress', 'lib/decompress', 'lib/dictBuilder', 'lib/legacy', 'lib/deprecated', 'contrib/seekable_format']

BASE_DEFS = ['-D_GNU_SOURCE', '-DZSTD_MULTITHREAD', '-DZSTD_VERIF_SIM', '-DZSTD_LEGACY_SUPPORT=5', '-DXXH_NAMESPACE=ZSTD_']
FLAVOURS = {
    # name: (zstd cflags, harness cflags, infra cflags (sched/alloc/core: never tsan), ldflags)
    'P': dict(z=['-O2', '-g'], h=['-O1', '-g'], i=['-O1', '-g'], ld=[]),
    'A': dict(z=['-O1', '-g', '-fno-omit-frame-pointer', '-fsanitize=address,undefined', '-fno-sanitize-recover=all', '-fsanitize-recover=pointer-overflow'],
              h=['-O1', '-g', '-fno-omit-frame-pointer', '-fsanitize=address,undefined', '-fno-sanitize-recover=all'],
              i=['-O1', '-g', '-fno-omit-frame-pointer'], ld=['-fsanitize=address,undefined']),
    'T': dict(z=['-O1', '-g', '-fno-omit-frame-pointer', '-fsanitize=thread'], h=['-O1', '-g'], i=['-O1', '-g'], ld=['-fsanitize=thread']),
    'F': dict(z=['-O2', '-g', '-DZSTD_WINDOW_OVERFLOW_CORRECT_FREQUENTLY=1'], h=['-O1', '-g'], i=['-O1', '-g'], ld=[]),
    'N': dict(z=['-O2', '-g', '-DZSTD_DISABLE_ASM', '-DDYNAMIC_BMI2=0'], h=['-O1', '-g'], i=['-O1', '-g'], ld=[]),
    'D': dict(z=['-O1', '-g', '-DDEBUGLEVEL=1'], h=['-O1', '-g'], i=['-O1', '-g'], ld=[]),
}

def _limit_mem(flavour):
    """A minimised or mutated plan must not take the machine down: plain flavours get an address-space cap
    (sanitizer flavours reserve terabytes of virtual memory and are bounded by their own runs being small)."""
    if flavour in ('A', 'T'): return None
    def f():
        import resource
        resource.setrlimit(resource.RLIMIT_AS, (16 << 30, 16 << 30))
    return f

def log(*a):
    print(*a, file=sys.stderr, flush=True)

def sh(cmd, **kw):
    return subprocess.run(cmd, stdout=subprocess.PIPE, stderr=subprocess.STDOUT, text=True, **kw)

def file_hash(paths, extra=''):
    h = hashlib.sha256()
    h.update(extra.encode())
    for p in sorted(paths):
        h.update(p.encode()); h.update(b'\0')
        try:
            with open(p, 'rb') as f: h.update(f.read())
        except OSError:
            h.update(b'<missing>')
    return h.hexdigest()[:20]

def repo_sources():
    srcs = []
    for d in LIB_DIRS:
        srcs += glob.glob(os.path.join(REPO, d, '*.c')) + glob.glob(os.path.join(REPO, d, '*.S'))
    srcs += [os.path.join(REPO, e) for e in EXTRA_SRC]
    return sorted(srcs)

def repo_all_files():
    fs = []
    for d in LIB_DIRS + ['lib', 'contrib/seekable_format', 'programs']:
        fs += [p for p in glob.glob(os.path.join(REPO, d, '*')) if os.path.isfile(p) and p.endswith(('.c', '.h', '.S'))]
    fs.append(os.path.join(REPO, 'tests/decodecorpus.c'))
    return sorted(set(fs))

def harness_sources():
    infra = [os.path.join(VERIF, 'sim/core/core.c'), os.path.join(VERIF, 'sim/core/hooks.c'), os.path.join(VERIF, 'sim/sched/simsched.c'), os.path.join(VERIF, 'sim/alloc/simalloc.c')]
    infra += sorted(glob.glob(os.path.join(VERIF, 'ref/*.c')))
    harn = [os.path.join(VERIF, 'sim/main.c')] + sorted(glob.glob(os.path.join(VERIF, 'sim/scenarios/*.c'))) + sorted(glob.glob(os.path.join(VERIF, 'sim/io/*.c')))
    return infra, harn

def harness_all_files():
    fs = []
    for root, _, files in os.walk(os.path.join(VERIF, 'sim')):
        fs += [os.path.join(root, f) for f in files if f.endswith(('.c', '.h'))]
    for root, _, files in os.walk(os.path.join(VERIF, 'ref')):
        fs += [os.path.join(root, f) for f in files if f.endswith(('.c', '.h'))]
    return sorted(fs)

def _compile_many(jobs):
    """jobs: list of (src, obj, flags). returns list of error strings."""
    errs = []
    def one(j):
        src, obj, flags = j
        r = sh([CC] + flags + ['-c', src, '-o', obj])
        if r.returncode != 0:
            return "compile failed: %s\n%s" % (src, r.stdout[-4000:])
        return None
    with ThreadPoolExecutor(max_workers=NCPU) as ex:
        for e in ex.map(one, jobs):
            if e: errs.append(e)
    return errs

def _evict(prefix, keep):
    for d in glob.glob(os.path.join(CACHE, prefix + '*')):
        if os.path.basename(d) != keep:
            shutil.rmtree(d, ignore_errors=True)

class BuildError(Exception):
    pass

def build(flavour):
    """Build (or reuse) the simulator binary of a flavour from /repo's current working tree. Returns path."""
    fl = FLAVOURS[flavour]
    os.makedirs(CACHE, exist_ok=True)
    lockf = open(os.path.join(CACHE, '.lock-' + flavour), 'w')
    fcntl.flock(lockf, fcntl.LOCK_EX)
    try:
        redirect = os.path.join(VERIF, 'sim/sched/sim_redirect.h')
        incs = []
        for i in INC: incs += ['-I', os.path.join(REPO, i)]
        zflags = fl['z'] + BASE_DEFS + ['-include', redirect] + incs + ['-w']
        zkey = file_hash(repo_all_files() + [redirect], ' '.join(zflags) + CC)
        zdir = os.path.join(CACHE, 'z-%s-%s' % (flavour, zkey))
        zlib = os.path.join(zdir, 'libzstd_sim.a')
        if not os.path.exists(zlib):
            t0 = time.time()
            shutil.rmtree(zdir, ignore_errors=True); os.makedirs(zdir)
            jobs = []
            for s in repo_sources():
                o = os.path.join(zdir, os.path.relpath(s, REPO).replace('/', '_') + '.o')
                jobs.append((s, o, zflags))
            errs = _compile_many(jobs)
            if errs: raise BuildError('\n'.join(errs))
            r = sh(['ar', 'rcs', zlib + '.tmp'] + [j[1] for j in jobs])
            if r.returncode != 0: raise BuildError(r.stdout)
            os.rename(zlib + '.tmp', zlib)
            _evict('z-%s-' % flavour, os.path.basename(zdir))
            log('[build] zstd flavour %s from %s: %.1fs' % (flavour, REPO, time.time() - t0))
        infra, harn = harness_sources()
        hinc = ['-I', os.path.join(VERIF, 'sim'), '-I', os.path.join(VERIF, 'sim/core'), '-I', os.path.join(VERIF, 'ref'), '-I', os.path.join(REPO, 'tests')] + incs
        hflags = fl['h'] + BASE_DEFS + hinc + ['-Wall', '-Wno-unused-function', '-DSIM_FLAVOUR="%s"' % flavour]
        iflags = fl['i'] + BASE_DEFS + hinc + ['-Wall', '-Wno-unused-function', '-DSIM_FLAVOUR="%s"' % flavour]
        hkey = file_hash(harness_all_files(), zkey + ' '.join(hflags + iflags))
        hdir = os.path.join(CACHE, 'h-%s-%s' % (flavour, hkey))
        binp = os.path.join(hdir, 'simzstd')
        if not os.path.exists(binp):
            t0 = time.time()
            shutil.rmtree(hdir, ignore_errors=True); os.makedirs(hdir)
            jobs = []
            for s in infra: jobs.append((s, os.path.join(hdir, 'i_' + os.path.basename(s) + '.o'), iflags))
            for s in harn: jobs.append((s, os.path.join(hdir, 'h_' + os.path.basename(s) + '.o'), hflags))
            errs = _compile_many(jobs)
            if errs: raise BuildError('\n'.join(errs))
            r = sh([CC] + fl['ld'] + ['-o', binp + '.tmp'] + [j[1] for j in jobs] + [zlib, '-lpthread', '-lm', '-rdynamic', '-Wl,--wrap=malloc,--wrap=calloc,--wrap=realloc,--wrap=free'])
            if r.returncode != 0: raise BuildError(r.stdout[-4000:])
            os.rename(binp + '.tmp', binp)
            _evict('h-%s-' % flavour, os.path.basename(hdir))
            log('[build] harness flavour %s: %.1fs' % (flavour, time.time() - t0))
        return binp
    finally:
        fcntl.flock(lockf, fcntl.LOCK_UN); lockf.close()

# ---------------------------------------------------------------------------------------------
# running batches

class Failure:
    def __init__(self, idx, cls, msg, flavour, scenario, root, tier, trace=None, hash_=None, kf=None):
        self.idx, self.cls, self.msg, self.flavour, self.scenario, self.root, self.tier = idx, cls, msg, flavour, scenario, root, tier
        self.trace, self.hash, self.kf = trace, hash_, kf
    def __repr__(self):
        return 'Failure(%s idx=%s cls=%s msg=%s)' % (self.scenario, self.idx, self.cls, self.msg[:200])

class BatchResult:
    def __init__(self):
        self.evaluations = 0; self.sigs = set(); self.nontrivial = 0; self.failures = []; self.probes = {}; self.faults = {}
        self.hashes = {}; self.kf = {}; self.sched_sigs = set(); self.wall = 0.0; self.truncated = False; self.benign_restarts = 0
        self.steps = 0
    def merge(self, o):
        self.evaluations += o.evaluations; self.sigs |= o.sigs; self.nontrivial += o.nontrivial; self.failures += o.failures
        for k, v in o.probes.items(): self.probes[k] = self.probes.get(k, 0) + v
        for k, v in o.faults.items(): self.faults[k] = self.faults.get(k, 0) + v
        for k, v in o.kf.items(): self.kf.setdefault(k, []).extend(v)
        self.sched_sigs |= o.sched_sigs; self.wall += o.wall; self.truncated |= o.truncated; self.benign_restarts += o.benign_restarts

BENIGN_UB = 'applying zero offset to null pointer'   # NULL+0: harmless, defined in C++/C2y; counted, not reported
SAN_RE = re.compile(r'(AddressSanitizer|ThreadSanitizer|UndefinedBehaviorSanitizer|MemorySanitizer|LeakSanitizer):? ?([a-zA-Z\- ]+)')

def ubsan_class(text):
    """class of the first non-benign UBSan report in text, or None"""
    for line in text.splitlines():
        if 'runtime error:' in line and BENIGN_UB not in line:
            words = re.sub(r'[^a-z ]', ' ', line.split('runtime error:')[1].lower()).split()
            return 'crash:ubsan:' + '-'.join(words[:5])
    return None

def classify_crash(rc, errtext):
    u = ubsan_class(errtext)
    if u: return u
    m = SAN_RE.search(errtext)
    if m:
        kind = m.group(2).strip().split(' on ')[0].split(' in ')[0].strip().replace(' ', '-')[:40]
        return 'crash:%s:%s' % (m.group(1), kind)
    if rc == 68: return 'hang:cpu_cap'
    if rc == -99: return 'hang:wall_clock_stall'
    if rc < 0:
        # innermost zstd/library frame of the backtrace printed by the crash handler identifies the site
        m3 = re.findall(r'simzstd\(([A-Za-z_0-9]+)\+0x', errtext)
        site = next((x for x in m3 if not x.startswith(('on_crash', 'sim_', 'main'))), '')
        return 'crash:signal:%d%s' % (-rc, (':' + site) if site else '')
    return 'crash:exit:%d' % rc

def scan_recoverable_ubsan(errt, res):
    """pointer-overflow reports are recoverable in flavour A: attribute each to its run (stderr '@run i' markers)."""
    out = []; cur = -1
    if 'runtime error:' not in errt: return out
    for line in errt.splitlines():
        if line.startswith('@run '):
            try: cur = int(line.split()[1])
            except ValueError: pass
        elif 'runtime error:' in line:
            if BENIGN_UB in line: res.probes['ubsan.null_plus_zero_ignored'] = res.probes.get('ubsan.null_plus_zero_ignored', 0) + 1; continue
            out.append((cur, line))
    return out

def parse_worker_output(text, res, pending):
    """parse stdout of a worker; pending: dict last BEGIN"""
    cur_sched = {}
    for line in text.splitlines():
        if line.startswith('BEGIN '):
            parts = line.split()
            pending['idx'] = int(parts[1]); pending['seed'] = parts[2].split('=')[1]
        elif line.startswith('SCHED '):
            parts = line.split()
            cur_sched[int(parts[1])] = parts[2].split('=')[1]
        elif line.startswith('END '):
            parts = line.split(' ', 2)
            idx = int(parts[1]); rest = parts[2]
            kv = dict(x.split('=', 1) for x in rest.split(' msg=')[0].split() if '=' in x)
            res.evaluations += 1
            pending['idx'] = None
            res.hashes[idx] = kv.get('hash')
            if kv.get('kf', '-') != '-':
                for k in kv['kf'].split(','): res.kf.setdefault(k, []).append(idx)
            if kv.get('status') == 'OK':
                if kv.get('nt') == '1':
                    key = kv.get('sig', '') + ':' + cur_sched.get(idx, '')
                    if key not in res.sigs: res.sigs.add(key); res.nontrivial += 1
                if idx in cur_sched: res.sched_sigs.add(cur_sched[idx])
            else:
                msg = rest.split(' msg=', 1)[1] if ' msg=' in rest else ''
                pending['viol'] = (idx, kv.get('class', '?'), msg, kv.get('hash'))
        elif line.startswith('TRACE'):
            pending['trace'] = line[5:].strip()
        elif line.startswith('PROBES'):
            for x in line.split()[1:]:
                k, v = x.rsplit('=', 1); res.probes[k] = res.probes.get(k, 0) + int(v)
        elif line.startswith('FAULTS'):
            for x in line.split()[1:]:
                k, v = x.rsplit('=', 1); res.faults[k] = res.faults.get(k, 0) + int(v)

def run_batch(flavour, scenario, root, runs, tier, workers=None, time_cap=None, cpu_cap=120, env_extra=None, stall_cap=400):
    """Fan `runs` runs of `scenario` out to long-lived worker processes; restart a worker that dies."""
    binp = build(flavour)
    if workers is None: workers = NCPU if flavour in ('P', 'F', 'N', 'D') else max(4, NCPU // 2)
    workers = max(1, min(workers, runs))
    res = BatchResult(); t0 = time.time()
    tmpd = tempfile.mkdtemp(prefix='simw-', dir=CACHE)
    env = dict(os.environ); env['SIM_CORPUS_DIR'] = CORPUS_ROOT; env.update(env_extra or {})
    class W: pass
    ws = []
    def spawn(w):
        w.out = os.path.join(tmpd, 'w%d-%d.out' % (w.k, w.gen)); w.err = os.path.join(tmpd, 'w%d-%d.err' % (w.k, w.gen)); w.gen += 1
        cmd = [binp, scenario, '--root', str(root), '--start', str(w.next), '--count', str(w.remaining), '--stride', str(workers), '--tier', tier, '--cpu-cap', str(cpu_cap)]
        w.fo = open(w.out, 'w'); w.fe = open(w.err, 'w')
        w.p = subprocess.Popen(cmd, stdout=w.fo, stderr=w.fe, env=env, cwd=tmpd, preexec_fn=_limit_mem(flavour)); w.last_change = time.time(); w.last_sz = -1
    for k in range(workers):
        w = W(); w.k = k; w.gen = 0; w.next = k; w.remaining = (runs - k + workers - 1) // workers
        if w.remaining <= 0: continue
        spawn(w); ws.append(w)
    active = list(ws)
    while active:
        time.sleep(0.05)   # workers that end a run in a benign client deadlock exit and are restarted: keep the turnaround short
        for w in list(active):
            rc = w.p.poll()
            if rc is None:
                try:
                    sz = os.path.getsize(w.out)
                    if sz != getattr(w, 'last_sz', -1): w.last_sz = sz; w.last_change = time.time()
                except OSError: pass
                if time.time() - getattr(w, 'last_change', time.time()) > stall_cap:
                    w.p.kill(); w.p.wait(); rc = -99      # no output for stall_cap seconds: wall-clock hang
                elif time_cap and time.time() - t0 > time_cap:
                    w.p.kill(); w.p.wait(); res.truncated = True
                    rc = 'killed'
                else:
                    continue
            w.fo.close(); w.fe.close()
            text = open(w.out, errors='replace').read(); errt = open(w.err, errors='replace').read()
            pending = {'idx': None}
            before = res.evaluations
            parse_worker_output(text, res, pending)
            done_here = res.evaluations - before
            for (ridx, rmsg) in scan_recoverable_ubsan(errt, res):
                res.failures.append(Failure(ridx, ubsan_class(rmsg), rmsg[:600], flavour, scenario, root, tier))
            if rc == 'killed' or rc == 0:
                active.remove(w); continue
            # worker died: identify the run
            if 'viol' in pending:
                idx, cls, msg, h = pending['viol']
                res.failures.append(Failure(idx, cls, msg, flavour, scenario, root, tier, pending.get('trace'), h))
                failed_idx = idx
            elif rc == 64:
                res.benign_restarts += 1   # END line was printed; worker just needs a restart
            else:
                failed_idx = pending.get('idx')
                cls = classify_crash(rc, errt)
                res.failures.append(Failure(failed_idx if failed_idx is not None else -1, cls, errt[-1500:].replace('\n', ' | '), flavour, scenario, root, tier))
                if failed_idx is not None: done_here += 1; res.evaluations += 1
                else: done_here = max(done_here, 1)
            w.remaining -= done_here
            w.next += done_here * workers
            if len(res.failures) >= 6 or w.remaining <= 0:
                active.remove(w); continue
            spawn(w)
    res.wall = time.time() - t0
    shutil.rmtree(tmpd, ignore_errors=True)
    return res

def build_decodecorpus():
    """The repository's own generator of spec-valid 'exotic' frames (tests/decodecorpus.c), built as upstream builds it."""
    os.makedirs(CACHE, exist_ok=True)
    lockf = open(os.path.join(CACHE, '.lock-tool'), 'w'); fcntl.flock(lockf, fcntl.LOCK_EX)
    try:
        srcs = [os.path.join(REPO, 'tests/decodecorpus.c'), os.path.join(REPO, 'programs/util.c'), os.path.join(REPO, 'programs/timefn.c')]
        for d in ['lib/common', 'lib/decompress', 'lib/dictBuilder', 'lib/compress']:
            srcs += [s for s in glob.glob(os.path.join(REPO, d, '*.c')) + glob.glob(os.path.join(REPO, d, '*.S')) if not s.endswith('compress/zstd_compress.c')]
        flags = ['-O1', '-w', '-DXXH_NAMESPACE=ZSTD_', '-DZSTD_MULTITHREAD'] + sum([['-I', os.path.join(REPO, i)] for i in ['lib', 'lib/common', 'lib/compress', 'lib/dictBuilder', 'programs', 'tests']], [])
        key = file_hash(repo_all_files() + [os.path.join(REPO, 'programs/util.c'), os.path.join(REPO, 'programs/util.h'), os.path.join(REPO, 'programs/timefn.c')], ' '.join(flags))
        tdir = os.path.join(CACHE, 'tool-dc-%s' % key); binp = os.path.join(tdir, 'decodecorpus')
        if not os.path.exists(binp):
            t0 = time.time(); shutil.rmtree(tdir, ignore_errors=True); os.makedirs(tdir)
            jobs = [(s, os.path.join(tdir, os.path.relpath(s, REPO).replace('/', '_') + '.o'), flags) for s in sorted(srcs)]
            errs = _compile_many(jobs)
            if errs: raise BuildError('\n'.join(errs))
            r = sh([CC, '-o', binp + '.tmp'] + [j[1] for j in jobs] + ['-lm', '-lpthread'])
            if r.returncode != 0: raise BuildError(r.stdout[-3000:])
            os.rename(binp + '.tmp', binp); _evict('tool-dc-', os.path.basename(tdir))
            log('[build] decodecorpus tool: %.1fs' % (time.time() - t0))
        return binp
    finally:
        fcntl.flock(lockf, fcntl.LOCK_UN); lockf.close()

def build_cli():
    """The real zstd command-line tool from /repo, its threads (async I/O pools, MT workers) running under simsched so that
    the system-call sequence is a function of VERIF_SCHED_SEED; plus the ptrace supervisor and the library verdict helper."""
    build('P')
    os.makedirs(CACHE, exist_ok=True)
    lockf = open(os.path.join(CACHE, '.lock-cli'), 'w'); fcntl.flock(lockf, fcntl.LOCK_EX)
    try:
        redirect = os.path.join(VERIF, 'sim/sched/sim_redirect.h')
        incs = sum([['-I', os.path.join(REPO, i)] for i in INC + ['programs']], [])
        flags = ['-O2', '-g', '-w'] + BASE_DEFS + ['-DZSTD_NOBENCH', '-DZSTD_NODICT', '-DBACKTRACE_ENABLE=0', '-include', redirect] + incs
        progs = [os.path.join(REPO, 'programs', f) for f in ['zstdcli.c', 'fileio.c', 'fileio_asyncio.c', 'util.c', 'timefn.c', 'zstdcli_trace.c', 'lorem.c']]
        infra = [os.path.join(VERIF, 'sim/core/core.c'), os.path.join(VERIF, 'sim/core/hooks.c'), os.path.join(VERIF, 'sim/sched/simsched.c'), os.path.join(VERIF, 'sim/alloc/simalloc.c')]
        tools = [os.path.join(VERIF, 'cli/clisup.c'), os.path.join(VERIF, 'cli/zcheck.c')]
        key = file_hash(repo_all_files() + glob.glob(os.path.join(REPO, 'programs/*')) + infra + tools + [redirect] + harness_all_files()[:0], ' '.join(flags))
        cdir = os.path.join(CACHE, 'cli-%s' % key)
        if not os.path.exists(os.path.join(cdir, '.done')):
            t0 = time.time(); shutil.rmtree(cdir, ignore_errors=True); os.makedirs(cdir)
            zlib = glob.glob(os.path.join(CACHE, 'z-P-*', 'libzstd_sim.a'))[0]
            iflags = ['-O1', '-g'] + BASE_DEFS + ['-I', os.path.join(VERIF, 'sim'), '-I', os.path.join(VERIF, 'sim/core')] + incs + ['-DSIM_FLAVOUR="CLI"']
            jobs = [(s, os.path.join(cdir, 'p_' + os.path.basename(s) + '.o'), flags) for s in progs] + [(s, os.path.join(cdir, 'i_' + os.path.basename(s) + '.o'), iflags) for s in infra]
            errs = _compile_many(jobs)
            if errs: raise BuildError('\n'.join(errs))
            r = sh([CC, '-o', os.path.join(cdir, 'zstd')] + [j[1] for j in jobs] + [zlib, '-lpthread', '-lm', '-Wl,--wrap=malloc,--wrap=calloc,--wrap=realloc,--wrap=free'])
            if r.returncode != 0: raise BuildError(r.stdout[-3000:])
            r = sh([CC, '-O1', '-Wall', '-o', os.path.join(cdir, 'clisup'), os.path.join(VERIF, 'cli/clisup.c')])
            if r.returncode != 0: raise BuildError(r.stdout[-3000:])
            # verdict helper: plain library objects (no redirect needed: single-threaded use), default allocator
            r = sh([CC, '-O1', '-w'] + BASE_DEFS + incs + ['-I', os.path.join(VERIF, 'sim'), '-I', os.path.join(VERIF, 'sim/core'), '-o', os.path.join(cdir, 'zcheck'), os.path.join(VERIF, 'cli/zcheck.c')] + [j[1] for j in jobs if '/i_' in j[1]] + [zlib, '-lpthread', '-lm', '-Wl,--wrap=malloc,--wrap=calloc,--wrap=realloc,--wrap=free'])
            if r.returncode != 0: raise BuildError(r.stdout[-3000:])
            open(os.path.join(cdir, '.done'), 'w').write('ok'); _evict('cli-', os.path.basename(cdir))
            log('[build] CLI flavour (zstd under simsched + clisup + zcheck): %.1fs' % (time.time() - t0))
        return cdir
    finally:
        fcntl.flock(lockf, fcntl.LOCK_UN); lockf.close()

CORPUS_ROOT = os.path.join(CACHE, 'corpus')
def ensure_corpus(seed, n):
    """Deterministic corpus of n spec-valid frames for a seed (files z%06d.zst); regenerated on demand, e.g. for replays."""
    d = os.path.join(CORPUS_ROOT, 'c%d_%d' % (seed, n))
    if os.path.exists(os.path.join(d, '.done')): return d
    binp = build_decodecorpus()
    shutil.rmtree(d, ignore_errors=True); os.makedirs(d)
    r = sh([binp, '-n%d' % n, '-p' + d, '-s%d' % seed, '--max-content-size-log=17'])
    if r.returncode != 0: raise BuildError('decodecorpus failed: ' + r.stdout[-2000:])
    open(os.path.join(d, '.done'), 'w').write('ok')
    # keep at most 3 corpora
    ds = sorted(glob.glob(os.path.join(CORPUS_ROOT, 'c*')), key=os.path.getmtime)
    for old in ds[:-3]: shutil.rmtree(old, ignore_errors=True)
    return d

def corpus_for_plan(plan_lines):
    kv = dict((l.split()[1], l.split()[2]) for l in plan_lines if l.startswith('P ') and len(l.split()) >= 3)
    if 'corpus_seed' in kv and 'corpus_n' in kv and int(kv.get('corpus_n', 0)) > 0:
        try: ensure_corpus(int(kv['corpus_seed']), int(kv['corpus_n']))
        except Exception as e: log('[corpus] %r' % e)

def gen_plan(flavour, scenario, root, idx, tier):
    binp = build(flavour)
    r = subprocess.run([binp, scenario, '--root', str(root), '--start', str(idx), '--count', '1', '--tier', tier, '--gen-only'], stdout=subprocess.PIPE, stderr=subprocess.PIPE, text=True)
    return [l for l in r.stdout.splitlines() if l and not l.startswith('#')]

def run_plan(flavour, plan_lines, cpu_cap=120, want_trace=False):
    """Run one explicit plan in a fresh process. Returns dict(status, cls, msg, hash, trace)."""
    binp = build(flavour)
    os.makedirs(CACHE, exist_ok=True)
    corpus_for_plan(plan_lines)
    fd, path = tempfile.mkstemp(prefix='plan-', suffix='.txt', dir=CACHE)
    with os.fdopen(fd, 'w') as f: f.write('\n'.join(plan_lines) + '\n')
    try:
        cmd = [binp, 'x', '--plan', path, '--cpu-cap', str(cpu_cap)] + (['--dump-trace'] if want_trace else [])
        try:
            r = subprocess.run(cmd, stdout=subprocess.PIPE, stderr=subprocess.PIPE, text=True, errors='replace', timeout=cpu_cap * 4 + 60, env=dict(os.environ, SIM_CORPUS_DIR=CORPUS_ROOT), preexec_fn=_limit_mem(flavour))
            rc, out, err = r.returncode, r.stdout, r.stderr
        except subprocess.TimeoutExpired as e:
            rc, out, err = 68, (e.stdout or b'').decode(errors='replace') if isinstance(e.stdout, bytes) else (e.stdout or ''), ''
        res = BatchResult(); pending = {'idx': None}
        parse_worker_output(out, res, pending)
        d = dict(rc=rc, status='OK', cls=None, msg='', hash=None, trace=pending.get('trace'), kf=list(res.kf.keys()))
        if 'viol' in pending:
            idx, cls, msg, h = pending['viol']; d.update(status='VIOL', cls=cls, msg=msg, hash=h)
        elif (rc == 0 or rc == 64) and ubsan_class(err):
            d.update(status='VIOL', cls=ubsan_class(err), msg=err[-1500:].replace('\n', ' | '), hash='ubsan')
        elif rc == 0 or rc == 64:
            d['hash'] = list(res.hashes.values())[0] if res.hashes else None
        else:
            d.update(status='VIOL', cls=classify_crash(rc, err), msg=err[-1500:].replace('\n', ' | '), hash='crash')
        return d
    finally:
        os.unlink(path)

# ---------------------------------------------------------------------------------------------
# minimisation (ddmin over ops, then parameter/argument shrinking, then schedule decisions)

def split_plan(lines):
    head = [l for l in lines if l.startswith(('scenario', 'seed'))]
    params = [l for l in lines if l.startswith('P ')]
    ops = [l for l in lines if l.startswith('O ')]
    sched = [l for l in lines if l.startswith('S')]
    return head, params, ops, sched

def shrink(flavour, lines, cls, budget=400, cpu_cap=60, wall=300):
    """Greedy/ddmin minimisation keeping the same violation class. Returns (lines, reruns).
    Bounded by a number of re-runs and by wall-clock time (slow flavours): whatever was reached by then is reported."""
    head, params, ops, sched = split_plan(lines)
    runs = [0]; t_end = time.time() + wall
    def same(cand_params, cand_ops, cand_sched):
        if runs[0] >= budget or time.time() > t_end: runs[0] = max(runs[0], budget); return False
        runs[0] += 1
        d = run_plan(flavour, head + cand_params + cand_ops + cand_sched, cpu_cap=cpu_cap)
        return d['status'] == 'VIOL' and d['cls'] == cls
    # 1. ddmin over ops
    n = 2
    while len(ops) >= 2 and runs[0] < budget:
        chunk = max(1, len(ops) // n); reduced = False
        for i in range(0, len(ops), chunk):
            cand = ops[:i] + ops[i + chunk:]
            if same(params, cand, sched):
                ops = cand; n = max(n - 1, 2); reduced = True; break
        if not reduced:
            if chunk == 1: break
            n = min(n * 2, len(ops))
    # 2. shrink integer args of ops and params toward 0 / halves
    def shrink_ints(items, is_param):
        changed = True
        nonlocal params, ops
        while changed and runs[0] < budget:
            changed = False
            for i, l in enumerate(list(items)):
                toks = l.split()
                first = 2
                for j in range(first, len(toks)):
                    try: v = int(toks[j])
                    except ValueError: continue
                    if is_param and toks[1].startswith('sched_seed'): continue
                    for nv in (0, 1, v // 2, v - 1):
                        if nv == v or nv < 0 or (abs(nv) >= abs(v)): continue
                        t2 = list(toks); t2[j] = str(nv); cand_items = list(items); cand_items[i] = ' '.join(t2)
                        ok = same(cand_items, ops, sched) if is_param else same(params, cand_items, sched)
                        if ok:
                            items[i] = ' '.join(t2); toks = t2; changed = True; break
        return items
    ops = shrink_ints(ops, False)
    params = shrink_ints(params, True)
    return head + params + ops + sched, runs[0]

def shrink_schedule(flavour, lines, cls, trace, budget=150, cpu_cap=60, wall=180):
    """Make the schedule explicit (S line) and zero out decision chunks (0 = stay on the current thread)."""
    head, params, ops, _ = split_plan(lines)
    dec = [int(x) for x in trace.split()] if trace else []
    if not dec: return lines, 0
    runs = [0]; t_end = time.time() + wall
    def same(d):
        if time.time() > t_end: runs[0] = max(runs[0], budget); return False
        runs[0] += 1
        r = run_plan(flavour, head + params + ops + ['S ' + ' '.join(map(str, d))], cpu_cap=cpu_cap)
        return r['status'] == 'VIOL' and r['cls'] == cls
    if not same(dec): return lines, runs[0]
    # truncate tail
    lo = 0; hi = len(dec)
    while hi - lo > 1 and runs[0] < budget:
        mid = (lo + hi) // 2
        if same(dec[:mid]): hi = mid
        else: lo = mid
    if same(dec[:hi]): dec = dec[:hi]
    chunk = max(1, len(dec) // 4)
    while chunk >= 1 and runs[0] < budget:
        i = 0
        while i < len(dec) and runs[0] < budget:
            if any(dec[i:i + chunk]):
                cand = dec[:i] + [0] * len(dec[i:i + chunk]) + dec[i + chunk:]
                if same(cand): dec = cand
            i += chunk
        if chunk == 1: break
        chunk //= 2
    while dec and dec[-1] == 0: dec.pop()
    return head + params + ops + ['S ' + ' '.join(map(str, dec if dec else [0]))], runs[0]

# ---------------------------------------------------------------------------------------------
# known findings, gate, evidence

def load_known_findings():
    p = os.path.join(VERIF, 'known_findings.jsonl'); out = []
    if os.path.exists(p):
        for l in open(p):
            l = l.strip()
            if l and not l.startswith('#'):
                try: out.append(json.loads(l))
                except ValueError: pass
    return out

def match_known(prop, cls, msg, scenario=None, flavour=None, plan_lines=None):
    for k in load_known_findings():
        if k.get('status') != 'known': continue
        if k.get('property') != prop: continue
        if not k.get('class'): continue          # entries keyed only by a scenario-noted key never excuse a hard violation
        if k['class'] != cls: continue
        if k.get('scenario') and scenario and k['scenario'] != scenario: continue
        if k.get('msg_regex') and not re.search(k['msg_regex'], msg or ''): continue
        if k.get('flavour') and flavour and k['flavour'] != flavour: continue
        if k.get('plan_regex') and not (plan_lines and re.search(k['plan_regex'], '\n'.join(plan_lines), re.M)): continue
        return k
    return None

def gate_violation(prop, f, do_shrink=True):
    """Returns ('violation', replay_path) | ('known', kf) | ('infra', reason)."""
    lines = gen_plan(f.flavour, f.scenario, f.root, f.idx, f.tier) if f.idx is not None and f.idx >= 0 else []
    if not [l for l in lines if l.startswith('seed')]: return ('infra', 'cannot regenerate plan for run %s' % f.idx)
    a = run_plan(f.flavour, lines, want_trace=True); b = run_plan(f.flavour, lines)
    if a['status'] != 'VIOL' or b['status'] != 'VIOL' or a['cls'] != b['cls'] or a['hash'] != b['hash']:
        return ('infra', 'violation %s of run %s did not reproduce identically in fresh processes (%s/%s, %s/%s)' % (f.cls, f.idx, a['cls'], b['cls'], a['hash'], b['hash']))
    cls = a['cls']; msg = a['msg']
    kf = match_known(prop, cls, msg, f.scenario, f.flavour, lines)
    if kf: return ('known', kf)
    minimised = lines; reruns = 0
    if do_shrink:
        try:
            minimised, reruns = shrink(f.flavour, lines, cls)
            if a.get('trace'):
                r1 = run_plan(f.flavour, minimised, want_trace=True)
                if r1['status'] == 'VIOL' and r1.get('trace'):
                    minimised, r2 = shrink_schedule(f.flavour, minimised, cls, r1['trace']); reruns += r2
        except Exception as e:
            log('[gate] shrink failed: %r' % e); minimised = lines
    c = run_plan(f.flavour, minimised); d = run_plan(f.flavour, minimised)
    if c['status'] != 'VIOL' or c['cls'] != cls or d['status'] != 'VIOL' or d['cls'] != cls or c['hash'] != d['hash']:
        minimised = lines; c = a
    kf = match_known(prop, cls, c['msg'], f.scenario, f.flavour, minimised)
    if kf: return ('known', kf)
    os.makedirs(REPLAYS, exist_ok=True)
    seed = [l for l in lines if l.startswith('seed')][0].split()[1]
    path = os.path.join(REPLAYS, '%s-%s-%s.json' % (prop, f.scenario, seed))
    json.dump(dict(property=prop, scenario=f.scenario, flavour=f.flavour, root=f.root, run_index=f.idx, seed=int(seed), tier=f.tier,
                   violation_class=cls, message=c['msg'], event_hash=c['hash'], plan=minimised, original_plan=lines,
                   original_ops=len([l for l in lines if l.startswith('O ')]), minimised_ops=len([l for l in minimised if l.startswith('O ')]),
                   shrink_reruns=reruns, replay_cmd='./run check %s --replay %s' % (prop, path)), open(path, 'w'), indent=1)
    return ('violation', path)

def replay_file(path):
    d = json.load(open(path))
    r = run_plan(d['flavour'], d['plan'])
    print('replay %s: status=%s class=%s hash=%s' % (path, r['status'], r['cls'], r['hash']))
    print('message:', r['msg'][:1500])
    if r['status'] == 'VIOL' and r['cls'] == d['violation_class']:
        print('VIOLATION property=%s replay=%s' % (d['property'], path)); return 1
    print('replay did not reproduce the recorded violation class %s' % d['violation_class']); return 0

def write_evidence(prop, tier, seed, level, coverage, wall, violations, assumptions):
    os.makedirs(EVID, exist_ok=True)
    ev = dict(property_id=prop, tier=tier, seed=int(seed), level=level, coverage=coverage, assumptions=assumptions, wall_s=round(wall, 2), violations=violations)
    tmp = os.path.join(EVID, prop + '.json.tmp')
    json.dump(ev, open(tmp, 'w'), indent=1)
    os.rename(tmp, os.path.join(EVID, prop + '.json'))
