#!/usr/bin/env python3
"""Regenerate MANIFEST.json from tools/manifest_data.py (claims) — keeps it valid at all times."""
import json, os, sys
sys.path.insert(0, os.path.dirname(os.path.abspath(__file__)))
import manifest_data as M
V = os.path.dirname(os.path.dirname(os.path.abspath(__file__)))
props = [json.loads(l)['id'] for l in open(os.path.join(V, 'properties.jsonl'))]
checks = []
for pid in props:
    if pid in M.CLAIMS:
        c = M.CLAIMS[pid]
        checks.append(dict(property_id=pid, quick_cmd='./run check %s --tier quick' % pid, thorough_cmd='./run check %s --tier thorough' % pid,
                           evidence_file='evidence/%s.json' % pid, replay_cmd_template='./run check %s --replay {path}' % pid, engine='simzstd',
                           level_claimed=dict(category=c['level'], text=c['text'], design_ref=c['design_ref']), level_note=c['note'], technique=c['technique']))
na = [dict(property_id=pid, reason=M.NOT_APPLICABLE.get(pid, 'check not built yet in this round (planned in DESIGN.md section 4); nothing is claimed')) for pid in props if pid not in M.CLAIMS]
man = dict(version=1, setup_cmd='./run setup',
           hooks=dict(guard='ZSTD_VERIF_SIM', enable='./run builds /repo sources with -DZSTD_VERIF_SIM (plus -include sim/sched/sim_redirect.h for the pthread seam) into /verif/.cache',
                      baseline_off_cmd='make -C /repo -k -j8 check VERBOSE=1', source_commits=M.HOOK_COMMITS, add_only=True),
           engines=[dict(name='simzstd', path='sim/', serves_properties=sorted(M.CLAIMS.keys()), kind_free_text='deterministic simulation with fault injection: seeded scheduler behind the pthread seam (real threads, one baton), allocator seam, simulated transport/segmentation, reference models; launcher ./run (tools/*.py)')],
           checks=checks, not_applicable=na, notes=M.NOTES)
json.dump(man, open(os.path.join(V, 'MANIFEST.json'), 'w'), indent=1)
print('MANIFEST.json: %d checks, %d not_applicable' % (len(checks), len(na)))
