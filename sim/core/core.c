/* core.c — PRNG, plan (de)serialisation, event hash, probes, violation reporting, input generators.
 * Compiled WITHOUT sanitizer instrumentation for thread-sanitizer builds (infrastructure, serialised by simsched). */
#define _GNU_SOURCE
#include "sim.h"
#include <stdarg.h>
#include <unistd.h>
#include <errno.h>

/* ---------------- PRNG ---------------- */
uint64_t sim_mix64(uint64_t x) {
    x += 0x9E3779B97F4A7C15ULL;
    x = (x ^ (x >> 30)) * 0xBF58476D1CE4E5B9ULL;
    x = (x ^ (x >> 27)) * 0x94D049BB133111EBULL;
    return x ^ (x >> 31);
}
uint64_t sim_strhash(const char* s) {
    uint64_t h = 0xcbf29ce484222325ULL;
    while (*s) { h ^= (unsigned char)*s++; h *= 0x100000001b3ULL; }
    return h;
}
uint64_t sim_hash_bytes(const void* p, size_t n) {
    const unsigned char* b = (const unsigned char*)p;
    uint64_t h = 0xcbf29ce484222325ULL ^ (uint64_t)n;
    size_t i;
    for (i = 0; i + 8 <= n; i += 8) { uint64_t v; memcpy(&v, b + i, 8); h = (h ^ v) * 0x100000001b3ULL; h ^= h >> 29; }
    for (; i < n; i++) { h ^= b[i]; h *= 0x100000001b3ULL; }
    return sim_mix64(h);
}
void rng_seed(Rng* r, uint64_t seed, const char* stream) { r->s = sim_mix64(seed ^ sim_strhash(stream)); }
uint64_t rng_u64(Rng* r) { r->s += 0x9E3779B97F4A7C15ULL; { uint64_t z = r->s; z = (z ^ (z >> 30)) * 0xBF58476D1CE4E5B9ULL; z = (z ^ (z >> 27)) * 0x94D049BB133111EBULL; return z ^ (z >> 31); } }
uint64_t rng_below(Rng* r, uint64_t n) { if (n == 0) return 0; return rng_u64(r) % n; }
int64_t rng_range(Rng* r, int64_t lo, int64_t hi) { if (hi <= lo) return lo; return lo + (int64_t)rng_below(r, (uint64_t)(hi - lo) + 1); }
int rng_coin(Rng* r, unsigned num, unsigned den) { return rng_below(r, den) < num; }
size_t rng_size(Rng* r, size_t max) {
    size_t v;
    switch (rng_below(r, 12)) {
    case 0: v = 0; break;
    case 1: v = 1 + rng_below(r, 16); break;
    case 2: v = rng_below(r, 600); break;
    case 3: case 4: v = rng_below(r, 5000); break;
    case 5: v = (size_t)(128 << 10) - 3 + rng_below(r, 7); break;
    case 6: v = ((size_t)1 << rng_range(r, 8, 20)) - 2 + rng_below(r, 5); break;
    case 7: case 8: v = rng_below(r, 70000); break;
    case 9: v = rng_below(r, 300000); break;
    default: v = rng_below(r, max + 1); break;
    }
    return v > max ? max : v;
}
size_t rng_chunk(Rng* r, size_t remaining, size_t hint) {
    size_t v;
    switch (rng_below(r, 10)) {
    case 0: v = 0; break;
    case 1: v = 1; break;
    case 2: v = 2 + rng_below(r, 15); break;
    case 3: v = (128 << 10) - 1 + rng_below(r, 3); break;
    case 4: v = hint ? hint : 1 + rng_below(r, 300); break;
    case 5: v = remaining; break;
    case 6: v = rng_below(r, 5000); break;
    case 7: v = rng_below(r, 70000); break;
    case 8: v = hint ? hint - (hint > 1) : 7; break;
    default: v = rng_below(r, remaining + 1); break;
    }
    return v > remaining ? remaining : v;
}

/* ---------------- plan ---------------- */
void plan_init(Plan* p, const char* scenario, uint64_t seed) {
    memset(p, 0, sizeof(*p));
    snprintf(p->scenario, sizeof p->scenario, "%s", scenario);
    p->seed = seed;
}
void plan_free(Plan* p) { free(p->params); free(p->ops); free(p->decisions); memset(p, 0, sizeof(*p)); }
void plan_set(Plan* p, const char* key, int64_t v) {
    int i;
    for (i = 0; i < p->nparams; i++) if (!strcmp(p->params[i].key, key)) { p->params[i].v = v; return; }
    if (p->nparams == p->cparams) { p->cparams = p->cparams ? p->cparams * 2 : 16; p->params = (PlanParam*)realloc(p->params, sizeof(PlanParam) * p->cparams); }
    snprintf(p->params[p->nparams].key, sizeof p->params[0].key, "%s", key);
    p->params[p->nparams++].v = v;
}
int64_t plan_get(const Plan* p, const char* key, int64_t dflt) {
    int i;
    for (i = 0; i < p->nparams; i++) if (!strcmp(p->params[i].key, key)) return p->params[i].v;
    return dflt;
}
static PlanOp* plan_newop(Plan* p) {
    if (p->nops == p->cops) { p->cops = p->cops ? p->cops * 2 : 32; p->ops = (PlanOp*)realloc(p->ops, sizeof(PlanOp) * p->cops); }
    memset(&p->ops[p->nops], 0, sizeof(PlanOp));
    return &p->ops[p->nops++];
}
PlanOp* plan_add(Plan* p, const char* kind, int nargs, ...) {
    PlanOp* o = plan_newop(p);
    va_list ap; int i;
    snprintf(o->kind, sizeof o->kind, "%s", kind);
    o->nargs = nargs > PLAN_MAX_ARGS ? PLAN_MAX_ARGS : nargs;
    va_start(ap, nargs);
    for (i = 0; i < o->nargs; i++) o->a[i] = va_arg(ap, int64_t);
    va_end(ap);
    return o;
}
void plan_print(const Plan* p, FILE* f) {
    int i, j;
    fprintf(f, "scenario %s\nseed %llu\n", p->scenario, (unsigned long long)p->seed);
    for (i = 0; i < p->nparams; i++) fprintf(f, "P %s %lld\n", p->params[i].key, (long long)p->params[i].v);
    for (i = 0; i < p->nops; i++) {
        fprintf(f, "O %s", p->ops[i].kind);
        for (j = 0; j < p->ops[i].nargs; j++) fprintf(f, " %lld", (long long)p->ops[i].a[j]);
        fprintf(f, "\n");
    }
    if (p->decisions) {
        fprintf(f, "S");
        for (i = 0; i < p->ndecisions; i++) fprintf(f, " %u", p->decisions[i]);
        fprintf(f, "\n");
    }
}
int plan_load(Plan* p, const char* path) {
    FILE* f = fopen(path, "r");
    char* line = NULL; size_t cap = 0; ssize_t n;
    if (!f) return -1;
    memset(p, 0, sizeof(*p));
    while ((n = getline(&line, &cap, f)) > 0) {
        char* s = line; char* tok; char* save = NULL;
        while (n > 0 && (line[n-1] == '\n' || line[n-1] == '\r')) line[--n] = 0;
        if (!*s || *s == '#') continue;
        tok = strtok_r(s, " ", &save);
        if (!tok) continue;
        if (!strcmp(tok, "scenario")) { tok = strtok_r(NULL, " ", &save); if (tok) snprintf(p->scenario, sizeof p->scenario, "%s", tok); }
        else if (!strcmp(tok, "seed")) { tok = strtok_r(NULL, " ", &save); if (tok) p->seed = strtoull(tok, NULL, 10); }
        else if (!strcmp(tok, "P")) { char* k = strtok_r(NULL, " ", &save); char* v = strtok_r(NULL, " ", &save); if (k && v) plan_set(p, k, strtoll(v, NULL, 10)); }
        else if (!strcmp(tok, "O")) {
            char* k = strtok_r(NULL, " ", &save);
            if (k) { PlanOp* o = plan_newop(p); snprintf(o->kind, sizeof o->kind, "%s", k);
                while ((tok = strtok_r(NULL, " ", &save)) && o->nargs < PLAN_MAX_ARGS) o->a[o->nargs++] = strtoll(tok, NULL, 10); }
        }
        else if (!strcmp(tok, "S")) {
            int c = 0, m = 0; uint8_t* d = NULL;
            while ((tok = strtok_r(NULL, " ", &save))) { if (m == c) { c = c ? c * 2 : 256; d = (uint8_t*)realloc(d, c); } d[m++] = (uint8_t)strtoul(tok, NULL, 10); }
            if (!d) d = (uint8_t*)malloc(1);
            p->decisions = d; p->ndecisions = m;
        }
    }
    free(line); fclose(f);
    return p->scenario[0] ? 0 : -2;
}
uint64_t plan_signature(const Plan* p) {
    uint64_t h = sim_strhash(p->scenario);
    int i, j;
    for (i = 0; i < p->nparams; i++) { if (!strncmp(p->params[i].key, "sched_seed", 10)) continue; h = sim_mix64(h ^ sim_strhash(p->params[i].key)); h = sim_mix64(h ^ (uint64_t)p->params[i].v); }
    for (i = 0; i < p->nops; i++) { h = sim_mix64(h ^ sim_strhash(p->ops[i].kind)); for (j = 0; j < p->ops[i].nargs; j++) h = sim_mix64(h ^ (uint64_t)p->ops[i].a[j]); }
    return h;
}

/* ---------------- run context ---------------- */
uint64_t g_sim_root = 1;
int  g_sim_verbose = 0;
long g_sim_run_index = 0;
static uint64_t g_evhash;
static long g_nevents;
static int g_nontrivial;
static char g_kf[256];
static uint64_t g_plan_sig;
static uint64_t g_run_seed;

typedef struct { char id[48]; long n; } Probe;
static Probe g_probes[256]; static int g_nprobes;
static Probe g_faults[64]; static int g_nfaults;

static void bump(Probe* tab, int* cnt, int cap, const char* id, long n) {
    int i;
    for (i = 0; i < *cnt; i++) if (!strcmp(tab[i].id, id)) { tab[i].n += n; return; }
    if (*cnt < cap) { snprintf(tab[*cnt].id, sizeof tab[0].id, "%s", id); tab[*cnt].n = n; (*cnt)++; }
}
void sim_probe(const char* id) { bump(g_probes, &g_nprobes, 256, id, 1); }
void sim_probe_n(const char* id, long n) { bump(g_probes, &g_nprobes, 256, id, n); }
void sim_fault_fired(const char* kind) { bump(g_faults, &g_nfaults, 64, kind, 1); }
void sim_mark_nontrivial(void) { g_nontrivial = 1; }
void sim_dump_probes(FILE* f) {
    int i;
    fprintf(f, "PROBES");
    for (i = 0; i < g_nprobes; i++) fprintf(f, " %s=%ld", g_probes[i].id, g_probes[i].n);
    fprintf(f, "\nFAULTS");
    for (i = 0; i < g_nfaults; i++) fprintf(f, " %s=%ld", g_faults[i].id, g_faults[i].n);
    fprintf(f, "\n");
    fflush(f);
}
void sim_run_begin(const Plan* p) {
    g_evhash = 0xcbf29ce484222325ULL; g_nevents = 0; g_nontrivial = 0; g_kf[0] = 0;
    g_plan_sig = plan_signature(p); g_run_seed = p->seed;
    printf("BEGIN %ld seed=%llu\n", g_sim_run_index, (unsigned long long)p->seed);
    fflush(stdout);
    fprintf(stderr, "@run %ld\n", g_sim_run_index);
}
void sim_event(const char* fmt, ...) {
    char buf[512]; va_list ap; int n; int i;
    va_start(ap, fmt); n = vsnprintf(buf, sizeof buf, fmt, ap); va_end(ap);
    if (n < 0) return; if (n >= (int)sizeof buf) n = sizeof buf - 1;
    for (i = 0; i < n; i++) { g_evhash ^= (unsigned char)buf[i]; g_evhash *= 0x100000001b3ULL; }
    g_evhash ^= 0xff; g_evhash *= 0x100000001b3ULL;
    g_nevents++;
    if (g_sim_verbose) { fprintf(stderr, "EV %s\n", buf); }
}
void sim_event_bytes(const char* tag, const void* p, size_t n) { sim_event("%s n=%zu h=%016llx", tag, n, (unsigned long long)sim_hash_bytes(p, n)); }
uint64_t sim_event_hash(void) { return g_evhash; }
void sim_note_finding(const char* key) { if (!strstr(g_kf, key) && strlen(g_kf) + strlen(key) + 2 < sizeof g_kf) { if (g_kf[0]) strcat(g_kf, ","); strcat(g_kf, key); } }

void sim_violation(const char* oracle, const char* fmt, ...) {
    char buf[1024]; va_list ap; char* c;
    va_start(ap, fmt); vsnprintf(buf, sizeof buf, fmt, ap); va_end(ap);
    for (c = buf; *c; c++) if (*c == '\n') *c = ' ';
    printf("END %ld status=VIOL class=%s hash=%016llx sig=%016llx nt=%d kf=%s msg=%s\n", g_sim_run_index, oracle,
           (unsigned long long)g_evhash, (unsigned long long)g_plan_sig, g_nontrivial, g_kf[0] ? g_kf : "-", buf);
    { int nt = 0, k; const uint8_t* t = sim_sched_trace(&nt); if (nt > 0 && nt < 400000) { printf("TRACE"); for (k = 0; k < nt; k++) printf(" %u", t[k]); printf("\n"); } }
    fflush(stdout);
    sim_dump_probes(stdout);
    _exit(65);
}
void sim_run_end_ok(void) {
    printf("END %ld status=OK hash=%016llx sig=%016llx nt=%d kf=%s ev=%ld\n", g_sim_run_index,
           (unsigned long long)g_evhash, (unsigned long long)g_plan_sig, g_nontrivial, g_kf[0] ? g_kf : "-", g_nevents);
    fflush(stdout);
}

/* ---------------- input generators ---------------- */
static const char* const k_words[] = { "the","zstd","frame","block","window","match","literal","offset","sequence","table",
    "huffman","entropy","stream","buffer","dictionary","compress","level","0123456789","\n","  ",", ","<div>","</div>","{\"key\":","\"value\"},",
    "AAAAAAAAAAAAAAAA","abcabcabc","lorem","ipsum","dolor","sit","amet" };
void gen_input(Rng* r, int kind, uint8_t* buf, size_t n) {
    size_t i = 0;
    if (n == 0) return;
    switch (kind % GEN_NKINDS) {
    case GEN_TEXT:
        while (i < n) { const char* w = k_words[rng_below(r, sizeof k_words / sizeof k_words[0])]; size_t l = strlen(w); if (l > n - i) l = n - i; memcpy(buf + i, w, l); i += l; if (i < n && rng_coin(r, 3, 4)) buf[i++] = ' '; }
        break;
    case GEN_LONGREP: {
        size_t seg = 64 + rng_below(r, 4000);
        while (i < n) {
            if (i > seg && rng_coin(r, 2, 3)) { size_t dist = 1 + rng_below(r, i); size_t l = 4 + rng_below(r, seg); size_t k; if (l > n - i) l = n - i; for (k = 0; k < l; k++) buf[i + k] = buf[i + k - dist]; i += l; }
            else { size_t l = 1 + rng_below(r, 200); size_t k; if (l > n - i) l = n - i; for (k = 0; k < l; k++) buf[i + k] = (uint8_t)rng_u64(r); i += l; }
        }
        break; }
    case GEN_RANDOM:
        while (i < n) { uint64_t v = rng_u64(r); size_t l = n - i < 8 ? n - i : 8; memcpy(buf + i, &v, l); i += l; }
        break;
    case GEN_RLE:
        while (i < n) { size_t l = 1 + rng_below(r, rng_coin(r, 1, 4) ? 200000 : 300); uint8_t c = (uint8_t)rng_below(r, 4); if (l > n - i) l = n - i; memset(buf + i, c, l); i += l; }
        break;
    case GEN_MIXED:
        while (i < n) { size_t l = 1 + rng_below(r, 60000); if (l > n - i) l = n - i; gen_input(r, (int)rng_below(r, 4), buf + i, l); i += l; }
        break;
    case GEN_EDGE: { /* low-entropy alphabet with periodic structure near block edges */
        unsigned alpha = 2 + (unsigned)rng_below(r, 14); size_t period = 1 + rng_below(r, 70000);
        for (i = 0; i < n; i++) buf[i] = (uint8_t)('a' + ((i % period) * 7 + (i / period)) % alpha);
        for (i = 0; i < n / 97 + 1; i++) buf[rng_below(r, n)] = (uint8_t)rng_u64(r);
        break; }
    default: /* GEN_ALT: alternating compressible / incompressible stripes (splitter-fooling) */
        while (i < n) { size_t l = 512 + rng_below(r, 9000); if (l > n - i) l = n - i; if ((i / 4096) & 1) gen_input(r, GEN_RANDOM, buf + i, l); else gen_input(r, GEN_TEXT, buf + i, l); i += l; }
        break;
    }
}
