/* hooks.c — simulator side of the guarded hooks in /repo (lib/common/zstd_verif.h, -DZSTD_VERIF_SIM).
 * probes: reach counters (per run and aggregated); coins: seeded choice between equivalent decoder variants;
 * index jump: "time jump" of the compressor's 32-bit match-finder index.  Infrastructure TU (never TSan-instrumented). */
#include "sim.h"
#include "zstd_verif.h"

static const char* const k_vp_names[ZSTD_VP_count + 1] = { "?", "zstd.cstream_end_shortcut", "zstd.dstream_single_pass", "zstd.overflow_correction", "zstd.ldm_overflow_correction",
    "zstd.index_too_close_reset", "zstd.cdict_attach", "zstd.cdict_copy", "zstd.mt_job_table_full", "zstd.mt_input_range_busy", "zstd.hostage_byte",
    "zstd.seqdec_long", "zstd.seqdec_splitlit", "zstd.seqdec_short", "zstd.huf_x1", "zstd.huf_x2", "zstd.index_jumped", "zstd.dict_scrolled_out", "?" };
static long g_vp_run[ZSTD_VP_count + 1];
static int g_coin_rate[ZSTD_VC_count + 1];   /* per 1024 */
static Rng g_coin_rng; static long g_coin_fired[ZSTD_VC_count + 1];
static size_t g_index_jump;
static size_t g_vp_val[ZSTD_VP_count + 1];
static int g_stall_site; static long g_stall_nth, g_stall_len, g_stall_seen[ZSTD_VS_count + 1], g_stall_fired;

void ZSTD_verif_probe(int id) { if (id > 0 && id < ZSTD_VP_count) { g_vp_run[id]++; sim_probe(k_vp_names[id]); } }
void ZSTD_verif_probe_val(int id, size_t v) { if (id > 0 && id < ZSTD_VP_count) g_vp_val[id] = v; }
size_t sim_hook_probe_value(int id) { return (id > 0 && id < ZSTD_VP_count) ? g_vp_val[id] : 0; }
int ZSTD_verif_coin(int site) {
    if (site <= 0 || site >= ZSTD_VC_count || g_coin_rate[site] == 0) return 0;
    if ((int)rng_below(&g_coin_rng, 1024) < g_coin_rate[site]) { g_coin_fired[site]++; return 1; }
    return 0;
}
unsigned ZSTD_verif_indexJump(void) { size_t j = g_index_jump; g_index_jump = 0; return j > 0xFFFFFFFFu ? 0xFFFFFFFFu : (unsigned)j; }

/* stalled-thread fault at a cooperative point: the nth passage of the chosen site deschedules the calling thread.
 * The sites are passed by several threads; which one is 'the nth' is decided by the (deterministic) schedule. */
void ZSTD_verif_stall(int site) {
    if (site <= 0 || site >= ZSTD_VS_count) return;
    g_stall_seen[site]++;
    if (site == g_stall_site && g_stall_seen[site] == g_stall_nth) { g_stall_fired++; sim_sched_stall_self(g_stall_len); }
}
void sim_hook_set_stall(int site, long nth, long decisions) { g_stall_site = site; g_stall_nth = nth; g_stall_len = decisions; }
long sim_hook_stall_fired(void) { return g_stall_fired; }

void sim_hooks_reset(uint64_t seed) { g_stall_site = 0; g_stall_nth = g_stall_len = g_stall_fired = 0; memset(g_stall_seen, 0, sizeof g_stall_seen); memset(g_vp_run, 0, sizeof g_vp_run); memset(g_coin_rate, 0, sizeof g_coin_rate); memset(g_coin_fired, 0, sizeof g_coin_fired); g_index_jump = 0; rng_seed(&g_coin_rng, seed, "coins"); }
long sim_hook_probe_count(int id) { return (id > 0 && id < ZSTD_VP_count) ? g_vp_run[id] : 0; }
void sim_hook_probe_clear(int id) { if (id > 0 && id < ZSTD_VP_count) g_vp_run[id] = 0; }
void sim_hook_set_coin(int site, int per1024) { if (site > 0 && site < ZSTD_VC_count) g_coin_rate[site] = per1024; }
long sim_hook_coin_fired(int site) { return (site > 0 && site < ZSTD_VC_count) ? g_coin_fired[site] : 0; }
void sim_hook_set_index_jump(size_t bytes) { g_index_jump = bytes; }
