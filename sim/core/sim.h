/* sim.h — shared interface of the deterministic simulator for zstd.
 * One integer (the run seed) decides the plan, the faults and the schedule. */
#ifndef SIM_H
#define SIM_H
#include <stddef.h>
#include <stdint.h>
#include <stdio.h>
#include <stdlib.h>
#include <string.h>

#ifdef __cplusplus
extern "C" {
#endif

/* ---------- PRNG (SplitMix64; named sub-streams derived by mixing) ---------- */
typedef struct { uint64_t s; } Rng;
uint64_t sim_mix64(uint64_t x);
uint64_t sim_strhash(const char* s);
void     rng_seed(Rng* r, uint64_t seed, const char* stream);
uint64_t rng_u64(Rng* r);
uint64_t rng_below(Rng* r, uint64_t n);            /* [0,n) ; n==0 -> 0 */
int64_t  rng_range(Rng* r, int64_t lo, int64_t hi);/* inclusive */
int      rng_coin(Rng* r, unsigned num, unsigned den);
size_t   rng_size(Rng* r, size_t max);             /* biased to edges: 0,1,small,block edges,max */
size_t   rng_chunk(Rng* r, size_t remaining, size_t hint); /* per-call segment size mixture */

/* ---------- plan: header params + list of ops with integer args ---------- */
#define PLAN_MAX_ARGS 10
typedef struct { char kind[24]; int nargs; int64_t a[PLAN_MAX_ARGS]; } PlanOp;
typedef struct { char key[32]; int64_t v; } PlanParam;
typedef struct {
    char scenario[32];
    uint64_t seed;
    PlanParam* params; int nparams, cparams;
    PlanOp* ops; int nops, cops;
    uint8_t* decisions; int ndecisions;   /* explicit schedule (replay/minimised) ; NULL = derive from seed */
} Plan;
void    plan_init(Plan* p, const char* scenario, uint64_t seed);
void    plan_free(Plan* p);
void    plan_set(Plan* p, const char* key, int64_t v);
int64_t plan_get(const Plan* p, const char* key, int64_t dflt);
PlanOp* plan_add(Plan* p, const char* kind, int nargs, ...);   /* varargs are int64_t */
void    plan_print(const Plan* p, FILE* f);
int     plan_load(Plan* p, const char* path);                   /* 0 ok */
uint64_t plan_signature(const Plan* p);                         /* hash of scenario+params+ops (not seed) */

/* ---------- per-run context: event hash, probes, violation ---------- */
extern int  g_sim_verbose;
extern long g_sim_run_index;
void sim_run_begin(const Plan* p);
void sim_event(const char* fmt, ...) __attribute__((format(printf,1,2)));  /* folded into the run's event hash */
void sim_event_bytes(const char* tag, const void* p, size_t n);            /* hash of a byte buffer as an event */
uint64_t sim_event_hash(void);
void sim_probe(const char* id);                 /* "this rare condition was hit" counter (per process, summed by launcher) */
void sim_probe_n(const char* id, long n);
void sim_fault_fired(const char* kind);         /* fault kinds that actually fired */
void sim_mark_nontrivial(void);                 /* the run did real work by the scenario's rule */
/* Report a violation of the running scenario's property: prints the END line and _exit(65). Never returns. */
void sim_violation(const char* oracle, const char* fmt, ...) __attribute__((noreturn, format(printf,2,3)));
/* A KNOWN-FINDING-candidate: recorded in the END line (kf=<key>), run continues. */
void sim_note_finding(const char* key);
void sim_run_end_ok(void);
void sim_dump_probes(FILE* f);

/* ---------- deterministic input generators (workload, not technique) ---------- */
enum { GEN_TEXT=0, GEN_LONGREP, GEN_RANDOM, GEN_RLE, GEN_MIXED, GEN_EDGE, GEN_ALT, GEN_NKINDS };
void gen_input(Rng* r, int kind, uint8_t* buf, size_t n);
uint64_t sim_hash_bytes(const void* p, size_t n);

/* ---------- simsched: deterministic scheduler behind the pthread seam ---------- */
enum { SCHED_RW=0, SCHED_PCT=1, SCHED_STICKY=2, SCHED_STARVE=3 };
typedef struct {
    uint64_t seed; int strategy; int pct_d; int horizon; int sticky_pct; int starve_tid;
    int spurious_per_1024;          /* spurious cond wake-ups (fault) */
    int fail_create_at;             /* k-th pthread_create returns EAGAIN (1-based, 0=never) */
    int fail_init_at;               /* k-th mutex/cond init returns ENOMEM (1-based, 0=never) */
    long step_cap;
    long fair_bound;                /* consecutive picks of one thread (others enabled) before it is treated as yielding */
    const uint8_t* decisions; int ndecisions;  /* explicit decisions: replay exactly (mod n), then 0 */
} SchedCfg;
typedef struct {
    long steps, switches, choices, threads_created, spurious_fired, create_failed, init_failed, fair_forced;
    uint64_t signature;
} SchedStats;
void sim_sched_cfg_from_plan(SchedCfg* c, const Plan* p);
void sim_sched_plan_defaults(Plan* p, Rng* r, int faults);     /* writes sched_* params */
void sim_sched_reset(const SchedCfg* c);
void sim_sched_finish(SchedStats* out);          /* checks all threads done; fills stats */
void sim_sched_stall_self(long decisions);     /* fault: the calling thread is descheduled for that many scheduling decisions (unless nothing else can run) */
void sim_yield(void);                            /* caller polling: let any other enabled thread run first */
int  sim_self(void);
int  sim_sched_live_threads(void);               /* threads created and not yet DONE */
/* deadlock classification hook: return 0 => violation (default), 1 => benign (client-inherent), message in buf */
extern int (*sim_on_deadlock)(char* buf, size_t n);
const uint8_t* sim_sched_trace(int* n);
/* description of blocked threads for models: state codes */
enum { ST_FREE=0, ST_RUNNABLE, ST_BLOCKED_MUTEX, ST_BLOCKED_COND, ST_BLOCKED_JOIN, ST_DONE };
int  sim_thread_state(int tid, void** wait_obj);
int  sim_thread_count(void);
/* client threads for harness programs (same as what zstd's pthread_create becomes) */
int  sim_spawn(void* (*fn)(void*), void* arg);   /* returns tid or -1 */
void sim_join_tid(int tid);

/* ---------- simalloc: allocator seam ---------- */
typedef struct { void* (*customAlloc)(void*, size_t); void (*customFree)(void*, void*); void* opaque; } SimCMem;
SimCMem sim_cmem(void);                 /* layout-compatible with ZSTD_customMem */
void   sim_alloc_reset(void);
void   sim_alloc_fail_at(long k, long k2);   /* k-th (and k2-th) allocation fails; 0 = none */
void   sim_alloc_fail_size_ge(size_t sz, long nth); /* nth allocation with size>=sz fails */
void   sim_alloc_budget(size_t bytes);       /* 0 = unlimited */
void   sim_alloc_trap(int on);               /* any allocator call is recorded as trapped */
void   sim_alloc_placement(unsigned pad16);  /* placement perturbation: returned pointers shifted by pad16*16 bytes */
long   sim_alloc_calls(void);
long   sim_alloc_failed(void);
long   sim_alloc_trapped(void);
size_t sim_alloc_live_bytes(void);
size_t sim_alloc_peak_bytes(void);
long   sim_alloc_live_blocks(void);
const char* sim_alloc_check(void);           /* NULL ok, else description (canary smashed, bad free, ...) */
void   sim_alloc_describe_live(char* buf, size_t n);
/* guarded hooks in /repo (lib/common/zstd_verif.h): probes, decoder-variant coins, index jump */
void   sim_hooks_reset(uint64_t seed);
long   sim_hook_probe_count(int id);      /* ZSTD_VP_* hits in this run */
void   sim_hook_probe_clear(int id);
size_t sim_hook_probe_value(int id);      /* last value reported by ZSTD_VERIF_PROBE_VAL */
void   sim_hook_set_coin(int site, int per1024);   /* ZSTD_VC_* */
long   sim_hook_coin_fired(int site);
void   sim_hook_set_index_jump(size_t bytes);
void   sim_hook_set_stall(int site, long nth, long decisions);   /* ZSTD_VS_*: the nth passage of that site stalls the thread */
long   sim_hook_stall_fired(void);      /* applied at the next frame start that continues its index */
/* libc allocator seam (--wrap): armed only around the call under test */
void   sim_wrap_arm(long fail1, long fail2);
void   sim_wrap_disarm(void);
void   sim_wrap_fill(int byte);   /* -1 off; else fill byte for malloc() blocks while armed */
void   sim_wrap_reset(void);
long   sim_wrap_calls(void);
long   sim_wrap_failed(void);
long   sim_wrap_live(void);
extern uint64_t g_sim_root;
/* guarded caller buffers: exact size, poisoned/canaried on both sides */
void*  sim_buf_new(size_t n);
void   sim_buf_free(void* p);
const char* sim_buf_check(void* p);

#ifdef __cplusplus
}
#endif
#endif
