/* c16_params.c — C16: parameter interface contract, as refinement of an API history against a small executable model.
 * History ops over a CCtx, a CCtxParams object and a DCtx: set / get / getBounds / reset(session|parameters|both) /
 * start frame (mid-frame stage) / end frame / provoke error / simple-API call / apply CCtxParams.  Values from the grid
 * {lo-1, lo, lo+1, 0, default, hi-1, hi, hi+1, INT_MIN, INT_MAX, random in-bounds} for every parameter.
 * Model-independent invariants (no table to get wrong):
 *   (I-a) after any call, get() lies inside getBounds() (0 tolerated: "0 = default/auto" in zstd.h)
 *   (I-b) a call that returned an error left every get() result unchanged
 *   (I-c) an in-bounds value is accepted at the init stage
 *   (I-d) reset(parameters) makes every get() equal its value on a fresh context
 * Table-driven on top (rows transcribed from zstd.h, only where the header is explicit): exact read-back for plain
 * parameters, boolean normalisation, mid-frame refusal of non-updatable parameters (stage_wrong), stickiness across frames
 * observed in emitted headers (checksum flag, content-size flag), parameter reset dropping them, the simple API ignoring
 * advanced settings. */
#include "../io/sess.h"
#include "scenarios.h"
#include <limits.h>

typedef struct { const char* name; int id; int plain; int boolean; int updatable; } PRow;
static const PRow k_c[] = {
    { "compressionLevel", ZSTD_c_compressionLevel, 0, 0, 1 }, { "windowLog", ZSTD_c_windowLog, 1, 0, 0 }, { "hashLog", ZSTD_c_hashLog, 1, 0, 1 }, { "chainLog", ZSTD_c_chainLog, 1, 0, 1 },
    { "searchLog", ZSTD_c_searchLog, 1, 0, 1 }, { "minMatch", ZSTD_c_minMatch, 1, 0, 1 }, { "targetLength", ZSTD_c_targetLength, 1, 0, 1 }, { "strategy", ZSTD_c_strategy, 1, 0, 1 },
    { "targetCBlockSize", ZSTD_c_targetCBlockSize, 0, 0, 0 }, { "enableLongDistanceMatching", ZSTD_c_enableLongDistanceMatching, 1, 0, 0 }, { "ldmHashLog", ZSTD_c_ldmHashLog, 1, 0, 0 }, { "ldmMinMatch", ZSTD_c_ldmMinMatch, 1, 0, 0 },
    { "ldmBucketSizeLog", ZSTD_c_ldmBucketSizeLog, 1, 0, 0 }, { "ldmHashRateLog", ZSTD_c_ldmHashRateLog, 1, 0, 0 }, { "contentSizeFlag", ZSTD_c_contentSizeFlag, 0, 1, 0 }, { "checksumFlag", ZSTD_c_checksumFlag, 0, 1, 0 },
    { "dictIDFlag", ZSTD_c_dictIDFlag, 0, 1, 0 }, { "nbWorkers", ZSTD_c_nbWorkers, 1, 0, 0 }, { "jobSize", ZSTD_c_jobSize, 0, 0, 0 }, { "overlapLog", ZSTD_c_overlapLog, 1, 0, 0 },
    { "rsyncable", ZSTD_c_rsyncable, 0, 0, 0 }, { "format", ZSTD_c_format, 1, 0, 0 }, { "forceMaxWindow", ZSTD_c_forceMaxWindow, 0, 1, 0 }, { "forceAttachDict", ZSTD_c_forceAttachDict, 1, 0, 0 },
    { "literalCompressionMode", ZSTD_c_literalCompressionMode, 1, 0, 0 }, { "srcSizeHint", ZSTD_c_srcSizeHint, 1, 0, 0 }, { "enableDedicatedDictSearch", ZSTD_c_enableDedicatedDictSearch, 0, 1, 0 }, { "stableInBuffer", ZSTD_c_stableInBuffer, 1, 0, 0 },
    { "stableOutBuffer", ZSTD_c_stableOutBuffer, 1, 0, 0 }, { "blockDelimiters", ZSTD_c_blockDelimiters, 1, 0, 0 }, { "validateSequences", ZSTD_c_validateSequences, 0, 0, 0 }, { "useBlockSplitter", ZSTD_c_useBlockSplitter, 1, 0, 0 },
    { "useRowMatchFinder", ZSTD_c_useRowMatchFinder, 1, 0, 0 }, { "deterministicRefPrefix", ZSTD_c_deterministicRefPrefix, 0, 1, 0 }, { "prefetchCDictTables", ZSTD_c_prefetchCDictTables, 1, 0, 0 }, { "enableSeqProducerFallback", ZSTD_c_enableSeqProducerFallback, 0, 0, 0 },
    { "maxBlockSize", ZSTD_c_maxBlockSize, 0, 0, 0 }, { "searchForExternalRepcodes", ZSTD_c_searchForExternalRepcodes, 1, 0, 0 },
};
#define NC ((int)(sizeof k_c / sizeof k_c[0]))
static const PRow k_d[] = { { "windowLogMax", ZSTD_d_windowLogMax, 1, 0, 0 }, { "format", ZSTD_d_format, 1, 0, 0 }, { "stableOutBuffer", ZSTD_d_stableOutBuffer, 1, 0, 0 }, { "forceIgnoreChecksum", ZSTD_d_forceIgnoreChecksum, 1, 0, 0 },
    { "refMultipleDDicts", ZSTD_d_refMultipleDDicts, 1, 0, 0 }, { "disableHuffmanAssembly", ZSTD_d_disableHuffmanAssembly, 1, 0, 0 }, { "maxBlockSize", ZSTD_d_maxBlockSize, 0, 0, 0 } };
#define ND ((int)(sizeof k_d / sizeof k_d[0]))

static void gen(Plan* p, Rng* r, int tier, long idx) {
    int n = (int)rng_range(r, 4, tier ? 60 : 30), i; (void)idx;
    for (i = 0; i < n; i++) {
        int x = (int)rng_below(r, 100);
        if (x >= 54 && x < 58) plan_add(p, "bulk", 4, (int64_t)rng_below(r, 3), (int64_t)rng_below(r, 16), (int64_t)(rng_u64(r) >> 33), (int64_t)rng_below(r, 8));   /* which (0 setCParams, 1 setFParams, 2 setParams), 0-7 all fields valid / 8-15 one cParams field out of range, value seed, frame-parameter bits */
        else if (x < 58) plan_add(p, "set", 4, (int64_t)rng_below(r, 3), (int64_t)rng_below(r, 64), (int64_t)rng_below(r, 11), (int64_t)(rng_u64(r) >> 33));   /* target(0 cctx,1 params,2 dctx), param idx, value code, random */
        else if (x < 70) plan_add(p, "reset", 2, (int64_t)rng_below(r, 3), (int64_t)rng_range(r, 1, 3));
        else if (x < 74) plan_add(p, "pledge", 1, (int64_t)rng_below(r, 5));   /* announce the size of the next frame: exact, +1, half, 0, unknown */
        else if (x < 78) plan_add(p, "frame2", 0);                             /* a frame streamed in two calls: the only place where a pledge in force is observable */
        else if (x < 82) plan_add(p, "begin", 1, (int64_t)rng_below(r, 3));   /* 0 compression frame (continue), 1 decompression frame, 2 compression frame left with output pending (flush into 16 bytes: the stream sits in its flush stage) */
        else if (x < 87) plan_add(p, "end", 1, (int64_t)rng_below(r, 2));
        else if (x < 91) plan_add(p, "err", 1, (int64_t)rng_below(r, 2));
        else if (x < 95) plan_add(p, "simple", 0);
        else plan_add(p, "applyp", 0);
    }
    plan_set(p, "in_seed", (int64_t)(rng_u64(r) >> 2)); plan_set(p, "in_size", rng_range(r, 100, 40000)); plan_set(p, "in_kind", GEN_TEXT);
}

static int grid(ZSTD_bounds b, int dflt, int code, int64_t rnd) {
    switch (code) { case 0: return b.lowerBound == INT_MIN ? INT_MIN : b.lowerBound - 1; case 1: return b.lowerBound; case 2: return b.lowerBound + 1; case 3: return 0; case 4: return dflt; case 5: return b.upperBound - 1; case 6: return b.upperBound;
        case 7: return b.upperBound == INT_MAX ? INT_MAX : b.upperBound + 1; case 8: return INT_MIN; case 9: return INT_MAX; default: { long long span = (long long)b.upperBound - b.lowerBound + 1; return (int)(b.lowerBound + (span > 0 ? rnd % span : 0)); } }
}
typedef struct { int c[NC], cp[NC], d[ND]; } Snap;
static void snap(ZSTD_CCtx* c, ZSTD_CCtx_params* cp, ZSTD_DCtx* d, Snap* s) { int i; for (i = 0; i < NC; i++) { s->c[i] = INT_MIN + 7; ZSTD_CCtx_getParameter(c, (ZSTD_cParameter)k_c[i].id, &s->c[i]); s->cp[i] = INT_MIN + 7; ZSTD_CCtxParams_getParameter(cp, (ZSTD_cParameter)k_c[i].id, &s->cp[i]); } for (i = 0; i < ND; i++) { s->d[i] = INT_MIN + 7; ZSTD_DCtx_getParameter(d, (ZSTD_dParameter)k_d[i].id, &s->d[i]); } }
static void inv_bounds(const Snap* s, const char* after) {
    int i;
    for (i = 0; i < NC; i++) { ZSTD_bounds b = ZSTD_cParam_getBounds((ZSTD_cParameter)k_c[i].id); if (ZSTD_isError(b.error)) continue;
        if (s->c[i] != 0 && (s->c[i] < b.lowerBound || s->c[i] > b.upperBound)) sim_violation("param_out_of_bounds", "after %s: CCtx %s reads %d, advertised bounds [%d,%d]", after, k_c[i].name, s->c[i], b.lowerBound, b.upperBound);
        if (s->cp[i] != 0 && (s->cp[i] < b.lowerBound || s->cp[i] > b.upperBound)) sim_violation("param_out_of_bounds", "after %s: CCtxParams %s reads %d, advertised bounds [%d,%d]", after, k_c[i].name, s->cp[i], b.lowerBound, b.upperBound); }
    for (i = 0; i < ND; i++) { ZSTD_bounds b = ZSTD_dParam_getBounds((ZSTD_dParameter)k_d[i].id); if (ZSTD_isError(b.error)) continue;
        if (s->d[i] != 0 && (s->d[i] < b.lowerBound || s->d[i] > b.upperBound)) sim_violation("param_out_of_bounds", "after %s: DCtx %s reads %d, advertised bounds [%d,%d]", after, k_d[i].name, s->d[i], b.lowerBound, b.upperBound); }
}
static void inv_unchanged(const Snap* a, const Snap* b, const char* what) {
    int i; for (i = 0; i < NC; i++) { if (a->c[i] != b->c[i]) sim_violation("rejected_call_changed_state", "%s failed but CCtx %s changed %d -> %d", what, k_c[i].name, a->c[i], b->c[i]); if (a->cp[i] != b->cp[i]) sim_violation("rejected_call_changed_state", "%s failed but CCtxParams %s changed %d -> %d", what, k_c[i].name, a->cp[i], b->cp[i]); }
    for (i = 0; i < ND; i++) if (a->d[i] != b->d[i]) sim_violation("rejected_call_changed_state", "%s failed but DCtx %s changed %d -> %d", what, k_d[i].name, a->d[i], b->d[i]);
}
static int frame_has_checksum(const uint8_t* f, size_t n) { FwFrame fw; int r = -1; if (fw_parse(f, n, 0, &fw) == 0) { r = fw.checksum_flag; fw_free(&fw); } return r; }
static int frame_has_fcs(const uint8_t* f, size_t n) { FwFrame fw; int r = -1; if (fw_parse(f, n, 0, &fw) == 0) { r = fw.has_fcs; fw_free(&fw); } return r; }

static void exec(const Plan* p) {
    ZSTD_CCtx* c = ZSTD_createCCtx(); ZSTD_CCtx_params* cp = ZSTD_createCCtxParams(); ZSTD_DCtx* d = ZSTD_createDCtx(); Snap fresh, before, after; int i; Sess s; uint8_t* dst; size_t cap; int cmid = 0, dmid = 0; uint8_t* zf; size_t zfn; size_t dpos = 0;
    sess_init(&s); sess_make_input(&s, p); cap = ZSTD_compressBound(s.in_size) + 64; dst = (uint8_t*)malloc(cap); zf = (uint8_t*)malloc(cap); zfn = ZSTD_compress(zf, cap, s.in, s.in_size, 1);
    long long pledged = -1;   /* model of the announced size of the next frame: -1 unknown (the default of any new frame) */
    snap(c, cp, d, &fresh); inv_bounds(&fresh, "creation");
    for (i = 0; i < p->nops; i++) {
        const PlanOp* o = &p->ops[i]; char what[96];
        snap(c, cp, d, &before);
        if (!strcmp(o->kind, "set")) {
            int tgt = (int)o->a[0] % 3; size_t r;
            if (tgt == 2) { int pi = (int)((uint64_t)o->a[1] % ND); ZSTD_bounds b = ZSTD_dParam_getBounds((ZSTD_dParameter)k_d[pi].id); int v = grid(b, fresh.d[pi], (int)o->a[2], o->a[3]);
                snprintf(what, sizeof what, "DCtx_setParameter(%s, %d)%s", k_d[pi].name, v, dmid ? " mid-stream" : "");
                r = ZSTD_DCtx_setParameter(d, (ZSTD_dParameter)k_d[pi].id, v); snap(c, cp, d, &after);
                if (ZSTD_isError(r)) { inv_unchanged(&before, &after, what); if (!dmid && v >= b.lowerBound && v <= b.upperBound) sim_violation("in_bounds_rejected", "%s is rejected (%s) although within [%d,%d]", what, ZSTD_getErrorName(r), b.lowerBound, b.upperBound); }
                else { if (dmid) sim_violation("midstream_change_accepted", "%s accepted while a frame is being decoded", what);
                       /* zstd.h: a value beyond the bounds is either rejected or clamped, depending on the parameter: (I-a) below covers both */
                       if (k_d[pi].plain && v >= b.lowerBound && v <= b.upperBound && after.d[pi] != v) sim_violation("readback_mismatch", "%s accepted but get returns %d", what, after.d[pi]); }
            } else { int pi = (int)((uint64_t)o->a[1] % NC); ZSTD_bounds b = ZSTD_cParam_getBounds((ZSTD_cParameter)k_c[pi].id); int v = grid(b, fresh.c[pi], (int)o->a[2], o->a[3]); int got; int const mid = (tgt == 0) && cmid;
                if (k_c[pi].id == ZSTD_c_nbWorkers && v > 4) v = 4;   /* do not spawn hundreds of threads */
                snprintf(what, sizeof what, "%s_setParameter(%s, %d)%s", tgt ? "CCtxParams" : "CCtx", k_c[pi].name, v, mid ? " mid-frame" : "");
                r = tgt ? ZSTD_CCtxParams_setParameter(cp, (ZSTD_cParameter)k_c[pi].id, v) : ZSTD_CCtx_setParameter(c, (ZSTD_cParameter)k_c[pi].id, v); snap(c, cp, d, &after); got = tgt ? after.cp[pi] : after.c[pi];
                if (ZSTD_isError(r)) { inv_unchanged(&before, &after, what);
                    if (!mid && v >= b.lowerBound && v <= b.upperBound) sim_violation("in_bounds_rejected", "%s is rejected (%s) although within [%d,%d]", what, ZSTD_getErrorName(r), b.lowerBound, b.upperBound);
                    if (mid && k_c[pi].updatable && v >= b.lowerBound && v <= b.upperBound) sim_violation("updatable_param_refused", "%s refused although zstd.h lists it as updatable during compression", what); }
                else { if (mid && !k_c[pi].updatable) sim_violation("midframe_change_accepted", "%s accepted although the parameter may not change once a frame has started", what);
                       /* zstd.h: "Providing a value beyond bound will either clamp it, or trigger an error (depending on parameter)": (I-a) covers both */
                       if (k_c[pi].plain && v >= b.lowerBound && v <= b.upperBound && got != v) sim_violation("readback_mismatch", "%s accepted but get returns %d", what, got);
                       if (k_c[pi].boolean && got != (v != 0)) sim_violation("readback_mismatch", "%s accepted but get returns %d (flag documented as value != 0)", what, got); }
            }
            inv_bounds(&after, what);
        } else if (!strcmp(o->kind, "bulk")) {
            /* the structure setters: all-or-nothing ("On failure, no parameters are updated"), in-range structures accepted between frames, accepted values read back */
            static const int fld[7] = { 1, 3, 2, 4, 5, 6, 7 };   /* k_c rows of windowLog, chainLog, hashLog, searchLog, minMatch, targetLength, strategy: the member order of ZSTD_compressionParameters */
            int const which = (int)o->a[0] % 3, bad = (int)o->a[1] >= 8 && which != 1 ? (int)(o->a[1] - 8) % 7 : -1; unsigned v[7]; int k, valid = 1; size_t r; uint64_t h = (uint64_t)o->a[2] * 0x9E3779B97F4A7C15ull + 1;
            ZSTD_compressionParameters cpar; ZSTD_frameParameters fpar; ZSTD_parameters par;
            for (k = 0; k < 7; k++) { ZSTD_bounds b = ZSTD_cParam_getBounds((ZSTD_cParameter)k_c[fld[k]].id); h ^= h >> 29; h *= 0xBF58476D1CE4E5B9ull; h ^= h >> 32;
                v[k] = (unsigned)(b.lowerBound + (int)(h % (uint64_t)(b.upperBound - b.lowerBound + 1)));
                if (k == bad) { v[k] = (h >> 40) & 1 ? (unsigned)(b.upperBound + 1) : (unsigned)(b.lowerBound - 1); valid = 0; } }
            cpar.windowLog = v[0]; cpar.chainLog = v[1]; cpar.hashLog = v[2]; cpar.searchLog = v[3]; cpar.minMatch = v[4]; cpar.targetLength = v[5]; cpar.strategy = (ZSTD_strategy)v[6];
            fpar.contentSizeFlag = (int)(o->a[3] & 1) * (1 + (int)(o->a[2] & 2)); fpar.checksumFlag = (int)((o->a[3] >> 1) & 1); fpar.noDictIDFlag = (int)((o->a[3] >> 2) & 1);
            par.cParams = cpar; par.fParams = fpar;
            snprintf(what, sizeof what, "%s(%s%s)%s", which == 0 ? "ZSTD_CCtx_setCParams" : which == 1 ? "ZSTD_CCtx_setFParams" : "ZSTD_CCtx_setParams", valid ? "all fields in range" : "out-of-range ", valid ? "" : k_c[fld[bad]].name, cmid ? " mid-frame" : "");
            r = which == 0 ? ZSTD_CCtx_setCParams(c, cpar) : which == 1 ? ZSTD_CCtx_setFParams(c, fpar) : ZSTD_CCtx_setParams(c, par);
            snap(c, cp, d, &after);
            if (ZSTD_isError(r)) { inv_unchanged(&before, &after, what); sim_probe(valid ? "c16.bulk_refused_midframe" : "c16.bulk_refused_invalid");
                if (valid && !cmid) sim_violation("in_bounds_rejected", "%s is rejected between frames: %s", what, ZSTD_getErrorName(r)); }
            else { if (!valid) sim_violation("out_of_bounds_accepted", "%s accepted (value %u)", what, v[bad]);
                if (!cmid) { sim_probe("c16.bulk_accepted");
                    if (which != 1) for (k = 0; k < 7; k++) if (after.c[fld[k]] != (int)v[k]) sim_violation("readback_mismatch", "%s accepted but %s reads %d, not %u", what, k_c[fld[k]].name, after.c[fld[k]], v[k]);
                    if (which != 0 && (after.c[14] != (fpar.contentSizeFlag != 0) || after.c[15] != (fpar.checksumFlag != 0) || after.c[16] != (fpar.noDictIDFlag == 0))) sim_violation("readback_mismatch", "%s accepted but the frame flags read %d/%d/%d for {%d,%d,%d}", what, after.c[14], after.c[15], after.c[16], fpar.contentSizeFlag, fpar.checksumFlag, fpar.noDictIDFlag); } }
            inv_bounds(&after, what);
        } else if (!strcmp(o->kind, "reset")) {
            int tgt = (int)o->a[0] % 3, kind = (int)o->a[1]; size_t r = 0; if (kind < 1 || kind > 3) kind = 1;
            snprintf(what, sizeof what, "reset(target %d, directive %d)", tgt, kind);
            if (tgt == 0) { r = ZSTD_CCtx_reset(c, (ZSTD_ResetDirective)kind); if (!ZSTD_isError(r) && kind != 2) { cmid = 0; pledged = -1; /* ready to start a new frame; unknown is the default of any new frame */ } }
            else if (tgt == 1) { r = ZSTD_CCtxParams_reset(cp); kind = 2; }
            else { r = ZSTD_DCtx_reset(d, (ZSTD_ResetDirective)kind); if (!ZSTD_isError(r) && kind != 2) { dmid = 0; dpos = 0; } }
            snap(c, cp, d, &after);
            if (ZSTD_isError(r)) inv_unchanged(&before, &after, what);
            else {
                int k; if (kind == 1) inv_unchanged(&before, &after, "session-only reset (parameters must stay)");
                else for (k = 0; k < (tgt == 2 ? ND : NC); k++) { int now = tgt == 0 ? after.c[k] : tgt == 1 ? after.cp[k] : after.d[k], fr = tgt == 0 ? fresh.c[k] : tgt == 1 ? fresh.cp[k] : fresh.d[k];
                    if (now != fr) sim_violation("reset_not_default", "%s: %s reads %d, a fresh object reads %d", what, tgt == 2 ? k_d[k].name : k_c[k].name, now, fr); }
            }
        } else if (!strcmp(o->kind, "pledge")) {
            if (!cmid) { long long const v = (int)o->a[0] == 0 ? (long long)s.in_size : (int)o->a[0] == 1 ? (long long)s.in_size + 1 : (int)o->a[0] == 2 ? (long long)(s.in_size / 2) : (int)o->a[0] == 3 ? 0 : -1;
                size_t const r = ZSTD_CCtx_setPledgedSrcSize(c, v < 0 ? ZSTD_CONTENTSIZE_UNKNOWN : (unsigned long long)v);
                if (ZSTD_isError(r)) sim_violation("pledge_refused", "ZSTD_CCtx_setPledgedSrcSize(%lld) refused between frames: %s", v, ZSTD_getErrorName(r));
                pledged = v; snap(c, cp, d, &after); inv_unchanged(&before, &after, "announcing a source size (parameters are sticky)"); }
        } else if (!strcmp(o->kind, "frame2")) {
            if (!cmid && before.c[27] == 0 && before.c[28] == 0) { ZSTD_inBuffer in; ZSTD_outBuffer out; size_t r; long long const was = pledged;
                in.src = s.in; in.size = s.in_size / 2 + 1; in.pos = 0; out.dst = dst; out.size = cap; out.pos = 0;
                r = ZSTD_compressStream2(c, &out, &in, ZSTD_e_continue);
                if (!ZSTD_isError(r)) { in.size = s.in_size; do { r = ZSTD_compressStream2(c, &out, &in, ZSTD_e_end); } while (!ZSTD_isError(r) && r != 0); }
                pledged = -1;   /* zstd.h: only valid once, for the next frame; discarded at the end of the frame */
                if (ZSTD_isError(r)) { ZSTD_CCtx_reset(c, ZSTD_reset_session_only);
                    if ((was < 0 || was == (long long)s.in_size) && ZSTD_getErrorCode(r) == ZSTD_error_srcSize_wrong) sim_violation("stale_pledge", "a %zu-byte frame streamed in two calls fails with srcSize_wrong although %s", s.in_size, was < 0 ? "no size is announced for it (an earlier announcement was consumed by a frame or cancelled by a session reset)" : "exactly that size was announced");
                    sim_probe("c16.frame_failed_param_combination"); }
                else { if (was >= 0 && was != (long long)s.in_size && before.c[17] == 0) sim_violation("pledge_not_enforced", "%lld bytes announced, a %zu-byte frame completes without error", was, s.in_size);
                    if (was == (long long)s.in_size && before.c[21] == 0 && before.c[14] != 0 && before.c[17] == 0) { FwFrame fw; if (fw_parse(dst, out.pos, 0, &fw) == 0) { if (!fw.has_fcs || fw.fcs != (uint64_t)s.in_size) sim_violation("pledge_not_written", "announced size %zu is not in the frame header (has_fcs %d)", s.in_size, fw.has_fcs); fw_free(&fw); } }
                    sim_probe("c16.two_call_frames"); }
                snap(c, cp, d, &after); inv_unchanged(&before, &after, "a frame streamed in two calls (parameters are sticky)"); }
        } else if (!strcmp(o->kind, "begin")) {
            if (((int)o->a[0] == 0 || (int)o->a[0] == 2) && !cmid && before.c[27] == 0 /* with stableInBuffer the first small call does not start the frame yet */) { ZSTD_inBuffer in; ZSTD_outBuffer out; size_t r; int const pend = (int)o->a[0] == 2 && before.c[28] == 0 /* not with stableOutBuffer */; in.src = s.in; in.size = s.in_size / 2 + 1; in.pos = 0; out.dst = dst; out.size = pend ? (cap < 16 ? cap : 16) : cap; out.pos = 0; r = ZSTD_compressStream2(c, &out, &in, pend ? ZSTD_e_flush : ZSTD_e_continue); if (!ZSTD_isError(r)) { cmid = 1; if (pend && r > 0) sim_probe("c16.frame_with_output_pending"); } else { ZSTD_CCtx_reset(c, ZSTD_reset_session_only); pledged = -1; } }
            else if ((int)o->a[0] == 1 && !dmid && zfn > 8) { ZSTD_inBuffer in; ZSTD_outBuffer out; size_t r; uint8_t tmp[64]; in.src = zf; in.size = 7; in.pos = 0; out.dst = tmp; out.size = sizeof tmp; out.pos = 0; r = ZSTD_decompressStream(d, &out, &in); if (!ZSTD_isError(r)) { dmid = 1; dpos = in.pos; } else ZSTD_DCtx_reset(d, ZSTD_reset_session_only); }
            snap(c, cp, d, &after); inv_unchanged(&before, &after, "starting a frame (parameters are sticky)");
        } else if (!strcmp(o->kind, "end")) {
            if ((int)o->a[0] == 0) {   /* finish (or run) a complete frame and look at its header */
                ZSTD_inBuffer in; ZSTD_outBuffer out; size_t r; int const was_mid = cmid; int workers = before.c[17];
                in.src = s.in; in.size = s.in_size; in.pos = was_mid ? s.in_size / 2 + 1 : 0; out.dst = dst; out.size = cap; out.pos = 0;
                if (was_mid) { ZSTD_CCtx_reset(c, ZSTD_reset_session_only); in.pos = 0; }
                do { r = ZSTD_compressStream2(c, &out, &in, ZSTD_e_end); } while (!ZSTD_isError(r) && r != 0);
                cmid = 0; pledged = -1;
                if (ZSTD_isError(r)) { ZSTD_CCtx_reset(c, ZSTD_reset_session_only); sim_probe("c16.frame_failed_param_combination"); }
                else if (before.c[21] == 0 /* zstd1 format */ && before.c[28] == 0 /* stableOut irrelevant */) {
                    int const ck = frame_has_checksum(dst, out.pos), fcs = frame_has_fcs(dst, out.pos);
                    if (ck >= 0 && ck != (before.c[15] != 0)) sim_violation("sticky_param_not_applied", "frame %s a checksum but checksumFlag reads %d", ck ? "has" : "lacks", before.c[15]);
                    if (fcs >= 0 && before.c[14] == 0 && fcs == 1 && workers == 0) sim_violation("sticky_param_not_applied", "frame carries a content size although contentSizeFlag reads 0");
                    sim_probe("c16.frames_checked");
                }
                snap(c, cp, d, &after); inv_unchanged(&before, &after, "a completed frame (parameters are sticky)");
            } else if (dmid) { ZSTD_DCtx_reset(d, ZSTD_reset_session_only); dmid = 0; snap(c, cp, d, &after); inv_unchanged(&before, &after, "ending a decode session"); }
        } else if (!strcmp(o->kind, "err")) {
            size_t r; if ((int)o->a[0] == 0 && !cmid) { r = ZSTD_compress2(c, dst, 3, s.in, s.in_size); if (ZSTD_isError(r)) sim_probe("c16.provoked_errors"); ZSTD_CCtx_reset(c, ZSTD_reset_session_only); pledged = -1; }
            else if (!dmid) { uint8_t tmp[8]; r = ZSTD_decompressDCtx(d, tmp, sizeof tmp, zf, zfn > 5 ? zfn - 3 : zfn); (void)r; ZSTD_DCtx_reset(d, ZSTD_reset_session_only); }
            snap(c, cp, d, &after); inv_unchanged(&before, &after, "a failed operation followed by a session reset");
        } else if (!strcmp(o->kind, "simple")) {
            if (!cmid) { size_t r = ZSTD_compressCCtx(c, dst, cap, s.in, s.in_size, 1); pledged = -1;
                if (!ZSTD_isError(r)) { int const ck = frame_has_checksum(dst, r); if (ck == 1) sim_violation("simple_api_used_advanced_setting", "ZSTD_compressCCtx emitted a checksum: it must ignore advanced parameters (checksumFlag reads %d)", before.c[15]); if (!ZSTD_isFrame(dst, r)) sim_violation("simple_api_used_advanced_setting", "ZSTD_compressCCtx emitted a magicless frame (format reads %d)", before.c[21]); sim_probe("c16.simple_api_calls"); }
                snap(c, cp, d, &after); inv_unchanged(&before, &after, "a simple-API call (sticky parameters must survive it)"); }
        } else if (!strcmp(o->kind, "applyp")) {
            if (!cmid) { size_t r = ZSTD_CCtx_setParametersUsingCCtxParams(c, cp); snap(c, cp, d, &after);
                if (ZSTD_isError(r)) inv_unchanged(&before, &after, "setParametersUsingCCtxParams");
                else { int k; for (k = 0; k < NC; k++) if (after.c[k] != after.cp[k]) sim_violation("apply_params_mismatch", "after setParametersUsingCCtxParams: CCtx %s reads %d, the params object %d", k_c[k].name, after.c[k], after.cp[k]); sim_probe("c16.params_applied"); } }
        }
    }
    (void)dpos;
    if (p->nops >= 4) sim_mark_nontrivial();
    ZSTD_freeCCtx(c); ZSTD_freeCCtxParams(cp); ZSTD_freeDCtx(d); free(dst); free(zf); sess_free(&s);
}
const Scenario scen_c16params = { "c16params", "C16", gen, exec };
