/* c15_wear.c — C15: correctness does not wear out.
 * The compressor's 32-bit match-finder index is the "clock" of a context.  The simulator moves it:
 *   - guarded index jump (hook H4): before a frame whose index continues, the window is advanced by up to 3.4 GiB, so the
 *     real ZSTD_CURRENT_MAX overflow correction and the pre-emptive reset thresholds are reached without feeding GiBs;
 *   - flavour F (existing knob ZSTD_WINDOW_OVERFLOW_CORRECT_FREQUENTLY): corrections run constantly at small indices;
 *   - long histories: many frames with changing parameters through one context, long streams through small windows
 *     (encoder and decoder rings wrap thousands of times), and (thorough) one stream beyond 4 GiB, pipelined.
 * Oracle per frame: round trip, conformance (independent decoder, window enforced), and byte equality with the output of
 * a fresh context given the same calls. */
#include "../io/sess.h"
#include "scenarios.h"
#include "zstd_verif.h"

static void gen(Plan* p, Rng* r, int tier, long idx) {
    int nf = (int)rng_range(r, 2, tier ? 10 : 6), i; int big = (idx % 8) == 7;   /* 1 run in 8 pushes a >=17 MiB frame across the real threshold */
    plan_set(p, "in_kind", (int64_t)rng_below(r, GEN_NKINDS)); plan_set(p, "in_seed", (int64_t)(rng_u64(r) >> 2));
    if (rng_coin(r, 1, 4)) { plan_set(p, "dict_kind", rng_range(r, 1, 2)); plan_set(p, "dict_size", (int64_t)(64 + rng_size(r, 60 << 10))); plan_set(p, "dict_seed", (int64_t)(rng_u64(r) >> 2)); }
    if (rng_coin(r, 1, 3)) plan_set(p, "c.checksumFlag", 1);
    if (rng_coin(r, 1, 6)) { plan_set(p, "c.nbWorkers", rng_range(r, 1, 3)); plan_set(p, "c.jobSize", 512 << 10); }
    for (i = 0; i < nf; i++) {
        int64_t size_kb = rng_coin(r, 1, 3) ? (int64_t)rng_below(r, 40) : rng_range(r, 40, tier ? 6000 : 1500);
        int64_t level = rng_coin(r, 3, 4) ? rng_range(r, 1, 5) : rng_range(r, 6, size_kb > 600 ? 9 : 19);
        int64_t wlog = rng_coin(r, 1, 2) ? rng_range(r, 10, 17) : rng_range(r, 18, 23);
        int64_t strat = rng_coin(r, 1, 3) ? rng_range(r, 1, size_kb > 600 ? 6 : 9) : 0;
        int64_t ldm = rng_coin(r, 1, 5);
        int64_t jump_mb = rng_coin(r, 1, 2) ? 0 : rng_coin(r, 1, 2) ? rng_range(r, 1, 3500) : rng_range(r, 3300, 3600);   /* biased to the band just below the thresholds */
        int64_t mode = (int64_t)rng_below(r, 2);
        if (big && i == nf - 1) { size_kb = rng_range(r, 17 << 10, 21 << 10); level = rng_range(r, 1, 3); strat = rng_coin(r, 1, 2) ? 0 : rng_range(r, 1, 5); jump_mb = 3600; wlog = rng_range(r, 10, 21); }
        plan_add(p, "frm", 8, size_kb, level, wlog, strat, ldm, jump_mb, mode, (int64_t)(1 + rng_chunk(r, 1 << 20, 1 << 17)));
    }
    plan_set(p, "giant_mb", (tier && (idx % 97) == 96) ? 4200 : 0);
    plan_set(p, "mix_tail", rng_coin(r, 1, 2) ? 1 + (int64_t)(rng_u64(r) >> 3) : 0);
    sim_sched_plan_defaults(p, r, 0);
    plan_set(p, "sched_step_cap", 40000000);
}

static size_t do_frame(ZSTD_CCtx* c, const Plan* p, const PlanOp* o, Sess* s, uint8_t* dst, size_t cap) {
    size_t r;
    ZSTD_CCtx_reset(c, ZSTD_reset_session_and_parameters);
    sess_apply_cparams(c, p);
    ZSTD_CCtx_setParameter(c, ZSTD_c_compressionLevel, (int)o->a[1]); ZSTD_CCtx_setParameter(c, ZSTD_c_windowLog, (int)o->a[2]);
    if (o->a[3] > 0) ZSTD_CCtx_setParameter(c, ZSTD_c_strategy, (int)o->a[3]);
    if (o->a[4]) ZSTD_CCtx_setParameter(c, ZSTD_c_enableLongDistanceMatching, 1);
    if (s->dict) { r = ZSTD_CCtx_loadDictionary(c, s->dict, s->dict_size); if (ZSTD_isError(r)) return r; }
    if (o->a[6] == 0) return ZSTD_compress2(c, dst, cap, s->in, s->in_size);
    { ZSTD_inBuffer in; ZSTD_outBuffer out; size_t chunk = (size_t)o->a[7]; size_t pos = 0; long g = 0; if (chunk < 64) chunk = 64;   /* one output buffer of compressBound size: flushes only with chunks large enough not to exceed it */
      out.dst = dst; out.size = cap; out.pos = 0;
      /* the call history must be the same function of INPUT POSITIONS on the long-lived and on the fresh context: with worker threads a
       * call may consume only part of its input (schedule dependent), so every chunk is presented until consumed, and a flush is issued at
       * fixed chunk boundaries and driven to completion (otherwise job boundaries, hence bytes, would depend on the schedule) */
      for (;;) { size_t n = s->in_size - pos < chunk ? s->in_size - pos : chunk; int last = pos + n == s->in_size; long k = g; long spin = 0;
          in.src = s->in + pos; in.size = n; in.pos = 0;
          if (!last) {
              while (in.pos < in.size) { r = ZSTD_compressStream2(c, &out, &in, ZSTD_e_continue); if (ZSTD_isError(r)) return r; if (++spin > 50000000) return (size_t)-ZSTD_error_GENERIC; }
              if ((k % 5) == 4 && chunk >= 4096) do { r = ZSTD_compressStream2(c, &out, &in, ZSTD_e_flush); if (ZSTD_isError(r)) return r; if (++spin > 50000000) return (size_t)-ZSTD_error_GENERIC; } while (r != 0);
          } else {
              do { r = ZSTD_compressStream2(c, &out, &in, ZSTD_e_end); if (ZSTD_isError(r)) return r; if (++spin > 50000000) return (size_t)-ZSTD_error_GENERIC; } while (r != 0 || in.pos < in.size);
          }
          pos += n; g++;
          if (last) break; }
      return out.pos; }
}

/* one stream beyond the 32-bit range, pipelined: compress chunk -> decode chunk -> compare */
static void giant_stream(const Plan* p) {
    size_t const total_mb = (size_t)plan_get(p, "giant_mb", 0); size_t const chunk = 4u << 20; uint8_t* in = (uint8_t*)malloc(chunk); uint8_t* comp = (uint8_t*)malloc(ZSTD_compressBound(chunk) + 1024); uint8_t* back = (uint8_t*)malloc(chunk + 1024);
    ZSTD_CCtx* c = ZSTD_createCCtx_advanced(sess_cmem()); ZSTD_DCtx* d = ZSTD_createDCtx_advanced(sess_cmem()); Rng r; size_t mb; size_t back_have = 0; uint64_t hin = 0, hout = 0; size_t total_out = 0;
    rng_seed(&r, p->seed, "giant");
    ZSTD_CCtx_setParameter(c, ZSTD_c_compressionLevel, 1); ZSTD_CCtx_setParameter(c, ZSTD_c_windowLog, (int)rng_range(&r, 12, 20)); ZSTD_CCtx_setParameter(c, ZSTD_c_checksumFlag, 1);
    if (rng_coin(&r, 1, 2)) ZSTD_CCtx_setParameter(c, ZSTD_c_enableLongDistanceMatching, 1);
    for (mb = 0; mb < total_mb; mb += chunk >> 20) {
        ZSTD_inBuffer ib; ZSTD_outBuffer ob; ZSTD_inBuffer dib; ZSTD_outBuffer dob; size_t rr; int last = mb + (chunk >> 20) >= total_mb;
        if ((mb & 63) == 0) gen_input(&r, (int)rng_below(&r, GEN_NKINDS), in, chunk); else { size_t k; for (k = 0; k < 4096; k++) in[rng_below(&r, chunk)] ^= (uint8_t)rng_u64(&r); }   /* mostly repeats of the previous chunk: long-distance matches across the 4 GiB mark */
        hin = sim_mix64(hin ^ sim_hash_bytes(in, chunk));
        ib.src = in; ib.size = chunk; ib.pos = 0; ob.dst = comp; ob.size = ZSTD_compressBound(chunk) + 1024; ob.pos = 0;
        do { rr = ZSTD_compressStream2(c, &ob, &ib, last ? ZSTD_e_end : ZSTD_e_flush); if (ZSTD_isError(rr)) sim_violation("giant_compress_error", "at %zu MiB: %s", mb, ZSTD_getErrorName(rr)); } while (rr != 0);
        dib.src = comp; dib.size = ob.pos; dib.pos = 0;
        while (dib.pos < dib.size) { dob.dst = back; dob.size = chunk + 1024; dob.pos = back_have; rr = ZSTD_decompressStream(d, &dob, &dib); if (ZSTD_isError(rr)) sim_violation("giant_decode_error", "at %zu MiB: %s", mb, ZSTD_getErrorName(rr)); back_have = dob.pos;
            if (back_have >= chunk) { if (memcmp(back, in, chunk)) sim_violation("giant_mismatch", "stream content differs at %zu MiB", mb); hout = sim_mix64(hout ^ sim_hash_bytes(back, chunk)); total_out += chunk; memmove(back, back + chunk, back_have - chunk); back_have -= chunk; } }
        if (last && rr != 0) sim_violation("giant_incomplete", "decoder does not report the end of a %zu MiB frame", total_mb);
    }
    if (hin != hout || total_out != total_mb << 20) sim_violation("giant_mismatch", "regenerated %zu bytes of %zu MiB", total_out, total_mb);
    sim_probe_n("c15.giant_stream_mb", (long)total_mb);
    ZSTD_freeCCtx(c); ZSTD_freeDCtx(d); free(in); free(comp); free(back);
}

static void exec(const Plan* p) {
    ZSTD_CCtx* c = ZSTD_createCCtx_advanced(sess_cmem()); int i, f = 0; Sess dsess; const char* e; long corrections0 = 0;
    sess_init(&dsess);
    for (i = 0; i < p->nops; i++) {
        const PlanOp* o = &p->ops[i]; Sess s; uint8_t* a; uint8_t* b; size_t cap, ra, rb; ZSTD_CCtx* fresh; Rng r; size_t n; long oc0;
        if (strcmp(o->kind, "frm")) continue;
        sess_init(&s); n = (size_t)(o->a[0] < 0 ? 0 : o->a[0]) << 10; if (n > (64u << 20)) n = 64u << 20;
        rng_seed(&r, (uint64_t)plan_get(p, "in_seed", 1) + (uint64_t)f * 104729, "input"); s.in = (uint8_t*)malloc(n ? n : 1); s.in_size = n; gen_input(&r, (int)plan_get(p, "in_kind", 0) + f, s.in, n);
        if (plan_get(p, "dict_kind", 0)) { if (!dsess.dict) { dsess.in = s.in; dsess.in_size = s.in_size; sess_make_dict(&dsess, p); dsess.in = NULL; dsess.in_size = 0; } s.dict = dsess.dict; s.dict_size = dsess.dict_size; }
        cap = ZSTD_compressBound(n) + 4096; a = (uint8_t*)malloc(cap); b = (uint8_t*)malloc(cap);
        if (o->a[5] > 0) sim_hook_set_index_jump((size_t)o->a[5] << 20);
        oc0 = sim_hook_probe_count(ZSTD_VP_overflowCorrection) + sim_hook_probe_count(ZSTD_VP_ldmOverflowCorrection);
        ra = do_frame(c, p, o, &s, a, cap);
        if (ZSTD_isError(ra)) sim_violation("compress_error", "frame %d on the long-lived context: %s", f, ZSTD_getErrorName(ra));
        corrections0 += sim_hook_probe_count(ZSTD_VP_overflowCorrection) + sim_hook_probe_count(ZSTD_VP_ldmOverflowCorrection) - oc0;
        sim_hook_set_index_jump(0);
        fresh = ZSTD_createCCtx_advanced(sess_cmem()); rb = do_frame(fresh, p, o, &s, b, cap); ZSTD_freeCCtx(fresh);
        if (ZSTD_isError(rb)) sim_violation("compress_error", "frame %d on a fresh context: %s", f, ZSTD_getErrorName(rb));
        sess_check_lib_roundtrip(a, ra, s.in, s.in_size, s.dict, s.dict_size, 0, 0);
        sess_check_conformance(a, ra, s.in, s.in_size, s.dict, s.dict_size, 0, 0, 0, 0, NULL);
        if (ra != rb || memcmp(a, b, ra)) {
            size_t d0 = 0; FwFrame fa; int blk = -1, nb = 0; size_t regen_before = 0; while (d0 < ra && d0 < rb && a[d0] == b[d0]) d0++;
            if (fw_parse(a, ra, 0, &fa) == 0) { int q; nb = fa.nblocks; for (q = 0; q < fa.nblocks; q++) if (fa.blocks[q].off <= d0) blk = q; fw_free(&fa); }
            (void)regen_before;
            sim_violation("worn_context_differs", "frame %d (size %zu, level %d, windowLog %d, jump %lld MiB): long-lived context emits %zu bytes, fresh context %zu, first difference at byte %zu (block %d of %d)", f, n, (int)o->a[1], (int)o->a[2], (long long)o->a[5], ra, rb, d0, blk, nb);
        }
        /* decoder ring: stream-decode through tiny outputs so the decoder's window buffer wraps many times */
        if (n >= (256u << 10) && o->a[2] <= 14) { ZSTD_DCtx* d = ZSTD_createDCtx_advanced(sess_cmem()); DecResult dr; Plan dp; plan_init(&dp, "x", 1); plan_set(&dp, "dfin_in", 3000 + f * 17); plan_set(&dp, "dfin_out", 700 + f * 13);
            if (s.dict) ZSTD_DCtx_loadDictionary(d, s.dict, s.dict_size);
            sess_run_dhist(&dp, d, a, ra, 0, 0, &dr); if (dr.err || dr.out_size != n || memcmp(dr.out, s.in, n)) sim_violation("decoder_ring_mismatch", "frame %d: streaming decode through a wrapped window buffer fails or differs", f);
            dec_result_free(&dr); plan_free(&dp); ZSTD_freeDCtx(d); sim_probe("c15.decoder_ring_streams"); }
        sim_event("frame %d size=%zu -> %zu jump=%lldMiB", f, n, ra, (long long)o->a[5]);
        free(a); free(b); s.dict = NULL; sess_free(&s); f++;
    }
    /* ---- entry points mixed on the worn context WITHOUT a reset in between: a finished one-shot frame must not leave anything
     *      (pledged size, stage, dictionary) that the next streamed frame inherits; each frame equals a fresh context's ---- */
    if (plan_get(p, "mix_tail", 0)) {
        Rng r; int k, nk = 2 + (int)(plan_get(p, "mix_tail", 0) % 4); size_t const maxn = 90000; uint8_t* in = (uint8_t*)malloc(maxn); size_t const cap = ZSTD_compressBound(maxn) + 64; uint8_t* a = (uint8_t*)malloc(cap); uint8_t* b = (uint8_t*)malloc(cap);
        rng_seed(&r, (uint64_t)plan_get(p, "mix_tail", 1), "mix"); gen_input(&r, (int)plan_get(p, "in_kind", 0), in, maxn);
        ZSTD_CCtx_reset(c, ZSTD_reset_session_and_parameters);
        for (k = 0; k < nk; k++) {
            int const how = (int)rng_below(&r, 4); size_t const n = (size_t)rng_below(&r, maxn); size_t const off = (size_t)rng_below(&r, maxn - n + 1); size_t ra = 0, rb = 0; int pass;
            for (pass = 0; pass < 2; pass++) {
                ZSTD_CCtx* x = pass == 0 ? c : ZSTD_createCCtx_advanced(sess_cmem()); uint8_t* dst = pass == 0 ? a : b; size_t rr;
                if (how == 0) rr = ZSTD_compressCCtx(x, dst, cap, in + off, n, 1 + (int)(n % 5));
                else if (how == 1) rr = ZSTD_compress_usingDict(x, dst, cap, in + off, n, in, 1000, 3);
                else { ZSTD_inBuffer ib; ZSTD_outBuffer ob; size_t const half = n / 2; ib.src = in + off; ib.size = half; ib.pos = 0; ob.dst = dst; ob.size = cap; ob.pos = 0;
                    rr = ZSTD_compressStream2(x, &ob, &ib, how == 2 ? ZSTD_e_continue : ZSTD_e_flush);
                    if (!ZSTD_isError(rr)) { long g = 0; ib.size = n; do { rr = ZSTD_compressStream2(x, &ob, &ib, ZSTD_e_end); } while (!ZSTD_isError(rr) && rr != 0 && ++g < 100000); }
                    if (!ZSTD_isError(rr)) rr = ob.pos; }
                if (ZSTD_isError(rr)) sim_violation(pass == 0 ? "worn_context_fails" : "compress_error", "mixed entry points, frame %d (%s, %zu bytes) on the %s context: %s", k, how == 0 ? "compressCCtx" : how == 1 ? "compress_usingDict" : "compressStream2", n, pass == 0 ? "long-lived" : "fresh", ZSTD_getErrorName(rr));
                if (pass == 0) ra = rr; else { rb = rr; ZSTD_freeCCtx(x); }
            }
            sess_check_lib_roundtrip(a, ra, in + off, n, how == 1 ? in : NULL, how == 1 ? 1000 : 0, 1, 0);
            if (ra != rb || memcmp(a, b, ra)) sim_violation("worn_context_differs", "mixed entry points, frame %d (%s, %zu bytes): long-lived context emits %zu bytes, fresh context %zu", k, how == 0 ? "compressCCtx" : how == 1 ? "compress_usingDict" : "compressStream2", n, ra, rb);
            sim_probe("c15.mixed_entry_frames");
        }
        free(in); free(a); free(b);
    }
    if (corrections0 > 0) sim_probe("c15.runs_with_overflow_correction");
    if (f >= 2) sim_mark_nontrivial();
    if (plan_get(p, "giant_mb", 0) > 0) giant_stream(p);
    ZSTD_freeCCtx(c); sess_free(&dsess); sess_buf_cache_drop();
    if (sim_sched_live_threads() != 0) sim_violation("thread_leak", "worker threads alive after free");
    if (sim_alloc_live_blocks() != 0) sim_violation("leak", "%ld allocator block(s) live at end", sim_alloc_live_blocks());
    if ((e = sim_alloc_check()) != NULL) sim_violation("heap_corruption", "%s", e);
}
const Scenario scen_c15wear = { "c15wear", "C15", gen, exec };
