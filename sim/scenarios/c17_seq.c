/* c17_seq.c — C17: sequence-level compression.  The second party here is the SEQUENCE PRODUCER: either the caller handing
 * ZSTD_compressSequences a list, or a registered external producer called back once per block.  The simulator owns that
 * party: it produces valid parses with its own randomised parser (checked against a sequence-execution model before
 * use), and injects producer faults attached to the k-th callback (error code, zero sequences, more than capacity, a full
 * buffer without delimiter, a structurally invalid parse, garbage), list faults (one structural corruption of a valid
 * list, or arbitrary field corruption) and allocation faults.  Oracles: valid parse => conformant frame that the
 * independent decoder and the library decode to the source; definite structural violation with validation on => error;
 * producer failure => fallback succeeds / call fails with sequenceProducer_failed as configured, and the context is
 * reusable afterwards; unsupported combinations refused; everything memory-safe (exact guarded buffers, ASan flavour). */
#include "../io/sess.h"
#include "scenarios.h"

typedef struct { uint32_t ll, ml, off; } Tri;
typedef struct { Tri* t; size_t n, cap; size_t tail; } Parse;

static void parse_push(Parse* ps, uint32_t ll, uint32_t ml, uint32_t off) {
    if (ps->n == ps->cap) { ps->cap = ps->cap ? ps->cap * 2 : 256; ps->t = (Tri*)realloc(ps->t, ps->cap * sizeof(Tri)); }
    ps->t[ps->n].ll = ll; ps->t[ps->n].ml = ml; ps->t[ps->n].off = off; ps->n++;
}

/* randomised greedy parser over (dict || src).  A match at src position i may use offset o iff
 *   o <= (end_of_match <= W ? i + D : min(W, i))   — inside the validator's documented bound for every reading of it. */
static void my_parse(Parse* ps, const uint8_t* src, size_t n, const uint8_t* dict, size_t D, unsigned mm, size_t W, Rng* r) {
    enum { HL = 15 };
    uint32_t* tab = (uint32_t*)malloc(sizeof(uint32_t) << HL); size_t i = 0, anchor = 0, k; uint32_t reps[3] = { 0, 0, 0 };
    unsigned const skip_pct = (unsigned)rng_below(r, 4) == 0 ? (unsigned)rng_below(r, 60) : 0;
    unsigned const rep_pct = (unsigned)rng_below(r, 3) == 0 ? 90 : (unsigned)rng_below(r, 50);
    size_t const maxml = rng_coin(r, 1, 4) ? mm + rng_below(r, 40) : rng_coin(r, 1, 2) ? (size_t)1 << 30 : 3 + rng_size(r, 200000);
    unsigned const hb = mm < 4 ? 3 : 4;
    size_t const minlen = rng_coin(r, 1, 4) ? 64 + (size_t)rng_below(r, 1500) : mm;   /* sparse parses: few sequences per block */
    memset(tab, 0xff, sizeof(uint32_t) << HL);
    ps->n = 0; ps->tail = 0;
#define RD(pos) ((pos) < D ? dict[pos] : src[(pos) - D])
#define HASH(pos) ((uint32_t)((((uint32_t)RD(pos) | ((uint32_t)RD((pos) + 1) << 8) | ((uint32_t)RD((pos) + 2) << 16) | (hb == 4 ? ((uint32_t)RD((pos) + 3) << 24) : 0)) * 2654435761u) >> (32 - HL)))
    if (D + n >= hb) for (k = 0; k + hb <= D; k++) tab[HASH(k)] = (uint32_t)k;
    while (i + mm <= n && i + hb <= n) {
        size_t const c = D + i; uint32_t cand = tab[HASH(c)]; size_t best = 0, boff = 0; int t;
        tab[HASH(c)] = (uint32_t)c;
        /* candidates: recent offsets first (repcode-heavy parses), then the hash chain head */
        for (t = 0; t < 4; t++) {
            size_t o, len, lim;
            if (t < 3) { if (!reps[t] || rng_below(r, 100) >= rep_pct) continue; o = reps[t]; }
            else { if (cand == 0xffffffffu || rng_below(r, 100) < skip_pct) continue; o = c - cand; }
            if (o == 0 || o > i + D) continue;
            lim = n - i; if (lim > maxml) lim = maxml;
            for (len = 0; len < lim && RD(c - o + len) == src[i + len]; len++) {}
            if (len < mm || len < minlen) continue;
            /* offset admissibility */
            if (o > i) { if (i + len > W) { if (i >= W || o > i) { /* reaching the dictionary needs end<=W */ size_t cut = W > i ? W - i : 0; if (cut < mm) continue; len = cut; } } }
            else if (o > W) continue;
            if (len > best) { best = len; boff = o; }
        }
        if (best >= mm) {
            /* one block can carry a single long length: keep matches that can share a block below 65535+3 unless they are huge on purpose */
            parse_push(ps, (uint32_t)(i - anchor), (uint32_t)best, (uint32_t)boff);
            if (boff != reps[0]) { reps[2] = reps[1]; reps[1] = reps[0]; reps[0] = (uint32_t)boff; }
            for (k = 1; k < best && k < 64 && i + k + hb <= n; k += 7) tab[HASH(c + k)] = (uint32_t)(c + k);
            i += best; anchor = i;
        } else i++;
    }
    ps->tail = n - anchor;
    free(tab);
#undef RD
#undef HASH
}

/* turn a parse into a ZSTD_Sequence list.  explicit: split at block edges (random block sizes <= bmax) */
typedef struct { ZSTD_Sequence* s; size_t n, cap; size_t nblocks; } SeqList;
static void sl_push(SeqList* l, uint32_t ll, uint32_t ml, uint32_t off) {
    if (l->n == l->cap) { l->cap = l->cap ? l->cap * 2 : 256; l->s = (ZSTD_Sequence*)realloc(l->s, l->cap * sizeof(ZSTD_Sequence)); }
    l->s[l->n].litLength = ll; l->s[l->n].matchLength = ml; l->s[l->n].offset = off; l->s[l->n].rep = 0; l->n++;
}
static size_t next_block_target(Rng* r, size_t bmax) { return rng_coin(r, 2, 3) ? bmax : 1 + rng_below(r, bmax); }
static void to_explicit(SeqList* l, const Parse* ps, size_t n, size_t bmax, unsigned mm, Rng* r) {
    size_t k, room = next_block_target(r, bmax), carry = 0; int longs = 0;
    l->n = 0; l->nblocks = 0;
    for (k = 0; k <= ps->n; k++) {
        size_t ll = (k < ps->n ? ps->t[k].ll : ps->tail) + carry, ml = k < ps->n ? ps->t[k].ml : 0; uint32_t const off = k < ps->n ? ps->t[k].off : 0;
        carry = 0;
        for (;;) {
            if (ll >= room) { sl_push(l, (uint32_t)room, 0, 0); l->nblocks++; ll -= room; room = next_block_target(r, bmax); longs = 0; continue; }
            if (ml == 0) { carry = ll; break; }
            /* a second long length (>= 65536) cannot share a block with the first */
            if ((ll >= 65536 || ml >= 65536 + 3) && longs) { sl_push(l, 0, 0, 0); l->nblocks++; room = next_block_target(r, bmax); longs = 0; continue; }
            if (ll + ml <= room) { sl_push(l, (uint32_t)ll, (uint32_t)ml, off); room -= ll + ml; if (ll >= 65536 || ml >= 65536 + 3) longs = 1; if (ll >= 65536 && ml >= 65536 + 3) { /* two long lengths in one sequence: illegal, convert match to literals */ l->n--; room += ll + ml; carry = ll + ml; } break; }
            {   size_t const m1 = room - ll, m2 = ml - m1;
                if (m1 >= mm && m1 >= 3) {
                    sl_push(l, (uint32_t)ll, (uint32_t)m1, off); sl_push(l, 0, 0, 0); l->nblocks++; room = next_block_target(r, bmax); longs = 0;
                    ll = 0; ml = m2;
                    if (ml < mm || ml < 3) { carry = ml; break; }
                    continue;
                }
                /* first half too short: literals up to the edge */
                sl_push(l, (uint32_t)room, 0, 0); l->nblocks++; room = next_block_target(r, bmax); longs = 0; ll = 0; ml = m2;
                if (ml < mm || ml < 3) { carry = ml; break; }
            }
        }
    }
    if (carry || l->n == 0 || l->s[l->n - 1].offset != 0 || l->s[l->n - 1].matchLength != 0) { sl_push(l, (uint32_t)carry, 0, 0); l->nblocks++; }
    (void)n;
}
static void to_nodelim(SeqList* l, const Parse* ps) {
    size_t k; l->n = 0; l->nblocks = 0;
    for (k = 0; k < ps->n; k++) {
        /* a sequence carrying two long lengths cannot be represented; nor can two longs meet in a block the library cuts: keep at most moderately long literals */
        sl_push(l, ps->t[k].ll, ps->t[k].ml, ps->t[k].off);
    }
}

/* sequence-execution model: is the list a valid parse of src?  NULL = yes.  explicit: each block <= bmax, delimiters well formed. */
static const char* model_check(const ZSTD_Sequence* s, size_t ns, int explicit_delims, const uint8_t* src, size_t n, const uint8_t* dict, size_t D, size_t W, size_t bmax, unsigned minml) {
    static char msg[160]; size_t pos = 0, k, blk = 0; int closed = 1;
    for (k = 0; k < ns; k++) {
        size_t const ll = s[k].litLength, ml = s[k].matchLength, off = s[k].offset;
        if (explicit_delims && off == 0 && ml == 0) { pos += ll; blk += ll; if (blk > bmax) { snprintf(msg, sizeof msg, "block of %zu > %zu at seq %zu", blk, bmax, k); return msg; } if (pos > n) return "literals overrun source"; blk = 0; closed = 1; continue; }
        closed = 0;
        if (ml < minml) { snprintf(msg, sizeof msg, "seq %zu: matchLength %zu < %u", k, ml, minml); return msg; }
        pos += ll; if (pos > n) return "literals overrun source";
        if (off == 0) { snprintf(msg, sizeof msg, "seq %zu: offset 0 with matchLength %zu", k, ml); return msg; }
        if (off > pos + D || (off > pos && pos + ml > W) || (off <= pos && off > W)) { snprintf(msg, sizeof msg, "seq %zu: offset %zu at position %zu (D=%zu W=%zu ml=%zu)", k, off, pos, D, W, ml); return msg; }
        if (pos + ml > n) return "match overruns source";
        {   size_t j; for (j = 0; j < ml; j++) { size_t const q = D + pos + j - off; uint8_t const b = q < D ? dict[q] : src[q - D]; if (b != src[pos + j]) { snprintf(msg, sizeof msg, "seq %zu: match byte %zu differs (pos %zu off %zu)", k, j, pos, off); return msg; } } }
        pos += ml; blk += ll + ml;
    }
    if (explicit_delims) { if (!closed) return "last block not closed by a delimiter"; if (pos != n) { snprintf(msg, sizeof msg, "blocks cover %zu of %zu bytes", pos, n); return msg; } }
    return NULL;
}

/* ---------------- external producer (simulated second party) ---------------- */
typedef struct { const Plan* p; long calls; size_t abs_pos; unsigned mm; int validate; long fired; int fired_kind; int faults_enabled; } Prod;
static size_t producer(void* st, ZSTD_Sequence* out, size_t cap, const void* src, size_t n, const void* dict, size_t dsz, int level, size_t W) {
    Prod* pr = (Prod*)st; Parse ps; SeqList l; Rng r; size_t k, ret; int fault = 0; long const call = ++pr->calls; size_t const abs0 = pr->abs_pos;
    (void)dict; (void)dsz; (void)level;
    pr->abs_pos += n;
    if (pr->faults_enabled && plan_get(pr->p, "pf_mod", 0) < 2) for (k = 0; k < (size_t)pr->p->nops; k++) if (!strcmp(pr->p->ops[k].kind, "pf") && pr->p->ops[k].a[0] == call) fault = (int)pr->p->ops[k].a[1];
    /* family "interleaved fallback": the producer fails on every m-th block, so blocks parsed by the producer and blocks parsed by the internal
     * fallback alternate inside one frame and each kind inherits the repeat-offset history the other left behind */
    {   long const m = (long)plan_get(pr->p, "pf_mod", 0); if (pr->faults_enabled && !fault && m >= 2 && call % m == 0) { fault = 1 + (int)(plan_get(pr->p, "pf_kind", 0) % 3); sim_probe("c17.interleaved_fault"); } }
    memset(&ps, 0, sizeof ps); memset(&l, 0, sizeof l);
    rng_seed(&r, (uint64_t)plan_get(pr->p, "parse_seed", 1) + (uint64_t)call * 0x9E3779B97F4A7C15ull, "producer");
    sim_event("prod call=%ld n=%zu cap=%zu fault=%d", call, n, cap, fault);
    if (cap < ZSTD_sequenceBound(n)) sim_violation("producer_capacity", "producer given capacity %zu < ZSTD_sequenceBound(%zu)=%zu", cap, n, ZSTD_sequenceBound(n));
    if (fault) { pr->fired = call; pr->fired_kind = fault; }
    switch (fault) {
    case 1: sim_fault_fired("producer_error_code"); return ZSTD_SEQUENCE_PRODUCER_ERROR;
    case 2: sim_fault_fired("producer_zero_seqs"); return 0;
    case 3: sim_fault_fired("producer_over_capacity"); return cap + 1 + (size_t)rng_below(&r, 1000);
    default: break;
    }
    my_parse(&ps, (const uint8_t*)src, n, NULL, 0, pr->mm, W, &r);
    {   size_t const kcap = (size_t)plan_get(pr->p, "pseq_cap", 0);   /* at most kcap sequences per block (1, 2, 3: the short-block branches of the repeat-offset bookkeeping); the rest become last literals */
        if (kcap && ps.n > kcap) { size_t used = 0; for (k = 0; k < kcap; k++) used += (size_t)ps.t[k].ll + ps.t[k].ml; ps.n = kcap; ps.tail = n - used; sim_probe("c17.block_capped"); } }
    for (k = 0; k < ps.n; k++) sl_push(&l, ps.t[k].ll, ps.t[k].ml, ps.t[k].off);
    if (ps.tail || rng_coin(&r, 1, 2) || l.n == 0) sl_push(&l, (uint32_t)ps.tail, 0, 0);   /* the trailing delimiter is optional when there are no last literals */
    if (fault == 4) {   /* full buffer whose last entry is not a delimiter */
        sim_fault_fired("producer_full_no_delimiter");
        for (k = 0; k < cap; k++) { out[k].litLength = 0; out[k].matchLength = 3; out[k].offset = 1; out[k].rep = 0; }
        free(ps.t); free(l.s); return cap;
    }
    if (fault == 5 && l.n >= 1) {   /* definite structural violation: offset reaches before the start of the frame / match shorter than 3 */
        size_t idx = (size_t)rng_below(&r, l.n), pos = 0, j;
        sim_fault_fired("producer_invalid_parse");
        for (j = 0; j < l.n && (l.s[idx].matchLength == 0); j++) idx = (idx + 1) % l.n;
        if (l.s[idx].matchLength == 0) { /* no match in this block: make one up that is too short */ l.s[idx].offset = 1; l.s[idx].matchLength = 2; }
        else if (rng_coin(&r, 1, 3)) l.s[idx].matchLength = (unsigned)rng_below(&r, 3);
        else { for (j = 0; j < idx; j++) pos += l.s[j].litLength + l.s[j].matchLength; pos += l.s[idx].litLength; l.s[idx].offset = (unsigned)(abs0 + pos + 1 + (rng_coin(&r, 1, 2) ? 0 : rng_below(&r, 1 << 20))); }
    }
    if (fault == 6) {   /* garbage (memory-safety only) */
        sim_fault_fired("producer_garbage");
        l.n = 0; { size_t g = 1 + (size_t)rng_below(&r, cap < 64 ? cap : 64); for (k = 0; k < g; k++) sl_push(&l, (uint32_t)(rng_coin(&r, 1, 4) ? rng_u64(&r) : rng_below(&r, n + 2)), (uint32_t)(rng_coin(&r, 1, 4) ? rng_u64(&r) : rng_below(&r, n + 2)), (uint32_t)(rng_coin(&r, 1, 4) ? rng_u64(&r) : rng_below(&r, n + 2))); }
    }
    ret = l.n;
    if (ret > cap) sim_violation("harness", "producer parse has %zu sequences > capacity %zu", ret, cap);
    memcpy(out, l.s, ret * sizeof(ZSTD_Sequence));
    free(ps.t); free(l.s);
    return ret;
}

static char g_cdesc[200];
static void gen(Plan* p, Rng* r, int tier, long idx) {
    int mode, mm, combo = 0; size_t n;
    plan_set(p, "in_kind", (int64_t)rng_below(r, GEN_NKINDS));
    /* sizes: mostly small (many block-edge layouts with small maxBlockSize/window), a share beyond 128 KiB for cross-block matches */
    n = rng_coin(r, 1, 4) ? (size_t)(128 << 10) + rng_size(r, tier ? (1u << 20) : (300u << 10)) : rng_size(r, 70000);
    plan_set(p, "in_size", (int64_t)n); plan_set(p, "in_seed", (int64_t)(rng_u64(r) >> 2));
    sess_gen_cparams(p, r, GP_NOMT | GP_NOFORMAT);
    mode = (int)(idx % 6);   /* 0 cseq explicit, 1 cseq no-delim, 2 extracted explicit, 3 extracted merged, 4 producer compress2, 5 producer stream */
    plan_set(p, "mode", mode);
    mm = (int)rng_range(r, 3, 7);
    plan_set(p, "c.minMatch", mm);
    plan_set(p, "c.windowLog", rng_coin(r, 1, 3) ? rng_range(r, 10, 14) : rng_range(r, 10, 23));
    plan_set(p, "c.stableInBuffer", 0); plan_set(p, "c.stableOutBuffer", 0); plan_set(p, "c.nbWorkers", 0);
    plan_set(p, "c.blockDelimiters", (mode == 0 || mode == 2) ? 1 : 0);
    plan_set(p, "c.searchForExternalRepcodes", (int64_t)rng_below(r, 3));
    plan_set(p, "c.validateSequences", (int64_t)rng_below(r, 2));
    plan_set(p, "c.enableSeqProducerFallback", (int64_t)rng_below(r, 2));
    plan_set(p, "parse_seed", (int64_t)(rng_u64(r) >> 2));
    plan_set(p, "dict_kind", 0);
    if (mode <= 1 && rng_coin(r, 1, 3)) { plan_set(p, "dict_kind", rng_coin(r, 1, 2) ? 1 : 2);   /* 1 raw content, 2 structured (entropy tables + content) */ plan_set(p, "dict_size", (int64_t)(8 + rng_size(r, 60000))); plan_set(p, "dict_seed", (int64_t)(rng_u64(r) >> 2)); plan_set(p, "dict_mode", (int64_t)rng_below(r, 3)); /* 0 loadDictionary(raw) 1 refPrefix 2 refCDict */ }
    /* list faults (modes 0..3): 0 none; 1 offset beyond history; 2 offset beyond window; 3 match too short; 4 drop last delimiter; 5 malformed delimiter;
     * 6 lengths exceed source; 7 lengths fall short of source; 8 block larger than the block size; 9 arbitrary field corruption */
    plan_set(p, "corrupt", 0);
    if (mode <= 3 && (idx / 6) % 2 == 1) { plan_set(p, "corrupt", 1 + (int64_t)rng_below(r, 9)); plan_set(p, "c.validateSequences", 1); plan_set(p, "corrupt_seed", (int64_t)(rng_u64(r) >> 2)); }
    if (mode >= 4) {
        plan_set(p, "c.enableLongDistanceMatching", 2);
        if (rng_coin(r, 1, 14)) { combo = 1 + (int)rng_below(r, 2); if (combo == 1) plan_set(p, "c.nbWorkers", 1 + (int64_t)rng_below(r, 3)); else plan_set(p, "c.enableLongDistanceMatching", 1); }
        if ((idx / 6) % 2 == 1) { int nf = 1 + (int)rng_below(r, 2), k; for (k = 0; k < nf; k++) { int kind = 1 + (int)rng_below(r, 6); plan_add(p, "pf", 2, (int64_t)(1 + rng_below(r, rng_coin(r, 1, 2) ? 2 : 1 + n / 60000 + 3)), (int64_t)kind); if (kind >= 5) plan_set(p, "c.validateSequences", 1); } }
        plan_set(p, "chunk_seed", (int64_t)(rng_u64(r) >> 2));
    }
    plan_set(p, "combo", combo);
    /* family "sequence-count boundaries" (1 run in 24, mode 0): one block holding exactly K sequences, K around the three encodings of
     * Number_of_Sequences (1 byte < 128, 2 bytes < 0x7F00, 3 bytes above) */
    plan_set(p, "nbseq_k", 0);
    if ((idx % 24) == 12) { static const int ks[] = { 1, 126, 127, 128, 129, 254, 255, 256, 257, 32510, 32511, 32512, 32513, 32514, 32767 };
        plan_set(p, "nbseq_k", ks[rng_below(r, sizeof ks / sizeof ks[0])]); plan_set(p, "mode", 0); plan_set(p, "c.blockDelimiters", 1); plan_set(p, "c.minMatch", 4); plan_set(p, "c.windowLog", rng_range(r, 17, 22)); plan_set(p, "c.maxBlockSize", 0);
        plan_set(p, "dict_kind", 0); plan_set(p, "corrupt", 0); plan_set(p, "c.targetCBlockSize", 0); plan_set(p, "alloc_fail", 0); plan_set(p, "in_size", 140000); }
    plan_set(p, "alloc_fail", rng_coin(r, 1, 8) ? (int64_t)(1 + rng_below(r, 12)) : 0);
    plan_set(p, "reuse_first", rng_coin(r, 1, 4));
    /* family "interleaved fallback" (producer modes, every 4th group of six): see producer() */
    plan_set(p, "pf_mod", 0); plan_set(p, "pf_kind", 0); plan_set(p, "pseq_cap", 0);
    if (mode >= 4 && !combo && (idx / 6) % 4 == 3 && plan_get(p, "nbseq_k", 0) == 0) {
        plan_set(p, "pf_mod", rng_range(r, 2, 4)); plan_set(p, "pf_kind", (int64_t)rng_below(r, 3)); plan_set(p, "pseq_cap", rng_coin(r, 1, 4) ? 0 : rng_range(r, 1, 3));
        plan_set(p, "c.enableSeqProducerFallback", 1);
        plan_set(p, "c.searchForExternalRepcodes", rng_coin(r, 1, 3) ? (int64_t)rng_below(r, 2) : 2);
        if (rng_coin(r, 2, 3)) plan_set(p, "c.strategy", rng_range(r, 6, 9));
        if (rng_coin(r, 1, 2)) plan_set(p, "c.maxBlockSize", rng_range(r, 1024, 16384));
        if (rng_coin(r, 1, 2)) plan_set(p, "in_kind", rng_coin(r, 1, 2) ? GEN_TEXT : GEN_ALT);
    }
}

static size_t applied_bmax(const Plan* p) {
    size_t b = (size_t)128 << 10, w = (size_t)1 << sess_get_cparam(p, "windowLog", 23); int const mb = sess_get_cparam(p, "maxBlockSize", 0);
    if (mb >= 1024 && (size_t)mb < b) b = (size_t)mb;
    if (w < b) b = w;
    return b;
}

static size_t stream_all(ZSTD_CCtx* c, uint8_t* dst, size_t cap, const uint8_t* in, size_t n, Rng* r) {
    ZSTD_outBuffer o = { dst, cap, 0 }; size_t pos = 0, ret; long guard = 0;
    while (pos < n) {
        size_t chunk = rng_chunk(r, n - pos, 40000); ZSTD_inBuffer ib; if (chunk < 1) chunk = 1;
        ib.src = in + pos; ib.size = chunk; ib.pos = 0;
        while (ib.pos < ib.size) { ret = ZSTD_compressStream2(c, &o, &ib, rng_coin(r, 1, 9) ? ZSTD_e_flush : ZSTD_e_continue); if (ZSTD_isError(ret)) return ret; if (++guard > 1000000) sim_violation("no_progress", "stream with producer does not progress"); }
        pos += chunk;
    }
    for (;;) { ZSTD_inBuffer ib = { NULL, 0, 0 }; ret = ZSTD_compressStream2(c, &o, &ib, ZSTD_e_end); if (ZSTD_isError(ret)) return ret; if (ret == 0) break; if (o.pos == o.size) return (size_t)-ZSTD_error_dstSize_tooSmall; if (++guard > 1000000) sim_violation("no_progress", "end does not complete"); }
    return o.pos;
}

static void exec(const Plan* p) {
    Sess s; ZSTD_CCtx* c; Rng r; Parse ps; SeqList l; size_t cap, ret = 0, W, bmax; uint8_t* dst; const char* e; ZSTD_CDict* cd = NULL;
    int const mode = (int)plan_get(p, "mode", 0), corrupt = (int)plan_get(p, "corrupt", 0), combo = (int)plan_get(p, "combo", 0);
    unsigned const mm0 = (unsigned)sess_get_cparam(p, "minMatch", 3), mm = mm0 < 3 ? 3 : mm0 > 7 ? 7 : mm0;   /* minimised plans may carry any value */ int const validate = sess_get_cparam(p, "validateSequences", 0), fallback = sess_get_cparam(p, "enableSeqProducerFallback", 0);
    int const explicit_delims = sess_get_cparam(p, "blockDelimiters", 0); int expect = 0;  /* 0 must succeed, 1 must fail, 2 either (memory safety only) */
    int structured = 0; const uint8_t* dc = NULL; size_t dcn = 0; unsigned want_id = 0;
    int expect_code = 0; long const afail = (long)plan_get(p, "alloc_fail", 0); Prod pr; ZSTD_Sequence* seqbuf = NULL;
    memset(&ps, 0, sizeof ps); memset(&l, 0, sizeof l); memset(&pr, 0, sizeof pr); g_cdesc[0] = 0;
    sess_init(&s); sess_make_input(&s, p);
    if (plan_get(p, "dict_kind", 0) == 2) { sess_make_dict(&s, p); if (s.dict && s.dict_size > 8 && s.dict[0] == 0x37 && s.dict[1] == 0xA4 && s.dict[2] == 0x30 && s.dict[3] == 0xEC) { size_t const hs = ZDICT_getDictHeaderSize(s.dict, s.dict_size); if (!ZDICT_isError(hs) && hs < s.dict_size) { structured = 1; dc = s.dict + hs; dcn = s.dict_size - hs; sim_probe("c17.structured_dict"); } } if (!structured) { free(s.dict); s.dict = NULL; s.dict_size = 0; } }
    if (plan_get(p, "dict_kind", 0) && !structured) { Rng rd; size_t dn = (size_t)plan_get(p, "dict_size", 8); rng_seed(&rd, (uint64_t)plan_get(p, "dict_seed", 1), "dict"); s.dict = (uint8_t*)malloc(dn + 1); s.dict_size = dn; s.dict_raw = 1;
        /* raw content related to the input so that matches into it exist */
        gen_input(&rd, (int)plan_get(p, "in_kind", 0), s.dict, dn); if (s.in_size && dn) { size_t k; for (k = 0; k < dn; k += 97) { size_t len = dn - k < 61 ? dn - k : 61, from = (size_t)rng_below(&rd, s.in_size); if (from + len > s.in_size) len = s.in_size - from; memcpy(s.dict + k, s.in + from, len); } }
        if (dn >= 4 && s.dict[0] == 0x37 && s.dict[1] == 0xA4 && s.dict[2] == 0x30 && s.dict[3] == 0xEC) s.dict[0] = 0;
        dc = s.dict; dcn = dn; }
    rng_seed(&r, (uint64_t)plan_get(p, "parse_seed", 1), "parse");
    W = (size_t)1 << sess_get_cparam(p, "windowLog", 23); bmax = applied_bmax(p);
    c = ZSTD_createCCtx_advanced(sess_cmem());
    if (!c) sim_violation("harness", "no cctx");
    if (plan_get(p, "reuse_first", 0)) { uint8_t tmp[256]; (void)ZSTD_compressCCtx(c, tmp, sizeof tmp, s.in, s.in_size < 100 ? s.in_size : 100, 3); }
    sess_apply_cparams(c, p);
    if (s.dict) {
        int const dm = (int)plan_get(p, "dict_mode", 0); size_t dr = 0;
        if (dm == 0 || (dm == 1 && structured)) dr = ZSTD_CCtx_loadDictionary_advanced(c, s.dict, s.dict_size, ZSTD_dlm_byCopy, structured ? ZSTD_dct_fullDict : ZSTD_dct_rawContent);
        else if (dm == 1) dr = ZSTD_CCtx_refPrefix_advanced(c, s.dict, s.dict_size, ZSTD_dct_rawContent);
        else { ZSTD_compressionParameters cp = ZSTD_getCParams(sess_get_cparam(p, "compressionLevel", 3), s.in_size, s.dict_size); cp.windowLog = (unsigned)sess_get_cparam(p, "windowLog", 23); cp.minMatch = mm; /* a digested dictionary brings its own cParams: they must allow the parse */ cd = ZSTD_createCDict_advanced(s.dict, s.dict_size, ZSTD_dlm_byRef, structured ? ZSTD_dct_fullDict : ZSTD_dct_rawContent, cp, sess_cmem()); if (cd) dr = ZSTD_CCtx_refCDict(c, cd); else { free(s.dict); s.dict = NULL; s.dict_size = 0; dc = NULL; dcn = 0; structured = 0; } }
        if (ZSTD_isError(dr)) sim_violation("dict_load_refused", "%s dictionary refused: %s", structured ? "structured" : "raw-content", ZSTD_getErrorName(dr));
        if (structured && sess_get_cparam(p, "dictIDFlag", 1)) want_id = ZDICT_getDictID(s.dict, s.dict_size);
    }
    /* ---- build the list ---- */
    if (plan_get(p, "nbseq_k", 0) > 0 && mode == 0) {
        size_t const K = (size_t)plan_get(p, "nbseq_k", 1); size_t const body = 4 + 4 * K; size_t tail, k2; Rng rb; rng_seed(&rb, (uint64_t)plan_get(p, "parse_seed", 1), "nbseq");
        if (body <= ((size_t)128 << 10)) {
            tail = (size_t)rng_below(&rb, ((size_t)128 << 10) - body + 1); if (tail > 2000) tail = (size_t)rng_below(&rb, 2000);
            free(s.in); s.in_size = body + tail + (size_t)rng_below(&rb, 3000); s.in = (uint8_t*)malloc(s.in_size + 1);
            gen_input(&rb, GEN_RANDOM, s.in, s.in_size); for (k2 = 4; k2 < body; k2++) s.in[k2] = s.in[k2 - 4];
            l.n = 0; sl_push(&l, 4, 4, 4); for (k2 = 1; k2 < K; k2++) sl_push(&l, 0, 4, 4); sl_push(&l, (uint32_t)tail, 0, 0); l.nblocks = 1;
            if (s.in_size > body + tail) { sl_push(&l, (uint32_t)(s.in_size - body - tail), 0, 0); l.nblocks = 2; }
            sim_probe("c17.sequence_count_boundary");
        }
    } else if (mode <= 1) {
        my_parse(&ps, s.in, s.in_size, dc, dcn, mm, W, &r);
        if (mode == 0) to_explicit(&l, &ps, s.in_size, bmax < 1 ? 1 : bmax, mm, &r); else to_nodelim(&l, &ps);
        if (mode == 1) { /* two long lengths may not meet in one block, and the library decides the blocks: demote later long lengths in any 128 KiB neighbourhood */
            size_t k, lastlong = (size_t)-1, pos = 0; for (k = 0; k < l.n; k++) { int const lg = l.s[k].litLength >= 65536 || l.s[k].matchLength >= 65536 + 3; if (lg) { if (l.s[k].litLength >= 65536 && l.s[k].matchLength >= 65539) { l.n = k; break; } if (lastlong != (size_t)-1 && pos - lastlong < ((size_t)300 << 10)) { l.n = k; break; } lastlong = pos; } pos += l.s[k].litLength + l.s[k].matchLength; }
        }
    } else if (mode <= 3) {
        ZSTD_CCtx* g = ZSTD_createCCtx(); size_t const sb = ZSTD_sequenceBound(s.in_size); size_t ns;
        sess_apply_cparams(g, p); ZSTD_CCtx_setParameter(g, ZSTD_c_targetCBlockSize, 0);
        l.s = (ZSTD_Sequence*)malloc((sb + 1) * sizeof(ZSTD_Sequence)); l.cap = sb + 1;
        ns = ZSTD_generateSequences(g, l.s, sb, s.in, s.in_size);
        ZSTD_freeCCtx(g);
        if (ZSTD_isError(ns)) { sim_probe("c17.extract_refused"); sim_event("extract refused %s", ZSTD_getErrorName(ns)); goto done; }
        if (ns > sb) sim_violation("extract_overflow", "ZSTD_generateSequences returned %zu > ZSTD_sequenceBound %zu", ns, sb);
        l.n = ns;
        if (mode == 3) { l.n = ZSTD_mergeBlockDelimiters(l.s, l.n); if (l.n > ns) sim_violation("merge_grew", "mergeBlockDelimiters %zu -> %zu", ns, l.n); }
        sim_probe("c17.extracted");
    }
    if (mode <= 3) {
        /* the list must be a valid parse by the model before it is used as one */
        unsigned const minml = 3;
        e = model_check(l.s, l.n, explicit_delims, s.in, s.in_size, dc, dcn, W, (size_t)128 << 10, minml);
        if (e) { if (mode >= 2) sim_violation("extract_invalid", "library-extracted sequences are not a valid parse: %s", e); sim_violation("harness", "own parse invalid: %s", e); }
        if (mode <= 1 && mm >= 4) { size_t k; for (k = 0; k < l.n; k++) if (l.s[k].matchLength && l.s[k].matchLength < mm) sim_violation("harness", "own parse has ml %u < minMatch %u", l.s[k].matchLength, mm); }
        if (mode >= 2) {   /* zstd.h: "ZSTD_c_minMatch MUST be set as less than or equal to the smallest match" of the list: an extraction may hold 3-byte matches
                             * whatever the extracting context's minMatch was (long-distance matches cut down by the optimal parser), so the caller follows the list */
            size_t k; unsigned smallest = 7; for (k = 0; k < l.n; k++) if (l.s[k].matchLength && l.s[k].matchLength < smallest) smallest = l.s[k].matchLength;
            if (smallest < 3) smallest = 3;
            if (smallest < (unsigned)sess_get_cparam(p, "minMatch", 3) || sess_get_cparam(p, "minMatch", 0) == 0) { ZSTD_CCtx_setParameter(c, ZSTD_c_minMatch, (int)smallest); if (smallest == 3) sim_probe("c17.extracted_ml3_minmatch_lowered"); } }
    }
    /* ---- list faults ---- */
    if (corrupt && mode <= 3) {
        Rng rc; size_t k, nm = 0, pick, pos = 0; rng_seed(&rc, (uint64_t)plan_get(p, "corrupt_seed", 1), "corrupt");
        for (k = 0; k < l.n; k++) if (l.s[k].matchLength) nm++;
        expect = 1;
        switch (corrupt) {
        case 1: case 2: case 3:
            if (!nm) { expect = 0; break; }
            pick = (size_t)rng_below(&rc, nm);
            for (k = 0; k < l.n; k++) { if (l.s[k].matchLength) { if (!pick) break; pick--; } pos += l.s[k].litLength + l.s[k].matchLength; }
            pos += l.s[k].litLength;   /* position at the start of the match */
            if (corrupt == 1 && !dcn && rng_coin(&rc, 1, 3)) { /* first match of the frame given one of the initial repeat offsets (1,4,8) that its position cannot reach */
                size_t kk, pp = 0; for (kk = 0; kk < l.n && !l.s[kk].matchLength; kk++) pp += l.s[kk].litLength; pp += l.s[kk].litLength;
                if (pp < 8) { k = kk; pos = pp; l.s[k].offset = pp < 4 && rng_coin(&rc, 1, 2) ? 4 : 8; sim_fault_fired("list_offset_initial_repcode"); break; } }
            if (corrupt == 1) { /* beyond the history available at the match start (and beyond window + dictionary under any reading) */
                size_t const lim = (pos < W ? pos : W) + dcn; l.s[k].offset = (unsigned)(lim + 1 + (rng_coin(&rc, 1, 2) ? 0 : rng_below(&rc, 1 + (rng_coin(&rc, 1, 2) ? l.s[k].matchLength : (1u << 20)))));
                sim_fault_fired("list_offset_beyond_history"); }
            else if (corrupt == 2) { /* beyond the window: needs a match starting past the window */
                if (pos <= W) { size_t kk, pp = pos + l.s[k].matchLength; for (kk = k + 1; kk < l.n; kk++) { pp += l.s[kk].litLength; if (l.s[kk].matchLength && pp > W) break; pp += l.s[kk].matchLength; } if (kk >= l.n) { expect = 0; break; } k = kk; pos = pp; }
                l.s[k].offset = (unsigned)(W + dcn + 1 + rng_below(&rc, 1 + (rng_coin(&rc, 1, 2) ? 8 : pos)));
                sim_fault_fired("list_offset_beyond_window"); }
            else { l.s[k].matchLength = (unsigned)rng_below(&rc, 3); sim_fault_fired("list_match_too_short"); }
            break;
        case 4: if (!explicit_delims || !l.n) { expect = 0; break; } l.n--; if (!l.n && !s.in_size) expect = 2; sim_fault_fired("list_missing_delimiter"); break;
        case 5: if (!explicit_delims || !l.n) { expect = 0; break; } { size_t nd = 0; for (k = 0; k < l.n; k++) if (!l.s[k].matchLength && !l.s[k].offset) nd++; pick = (size_t)rng_below(&rc, nd); for (k = 0; k < l.n; k++) if (!l.s[k].matchLength && !l.s[k].offset) { if (!pick) break; pick--; } l.s[k].matchLength = 3 + (unsigned)rng_below(&rc, 50); }
            if (!s.in_size) expect = 2; sim_fault_fired("list_malformed_delimiter"); break;
        case 6: case 7: case 8:
            if (!explicit_delims || !l.n) { expect = 0; break; }
            k = (size_t)rng_below(&rc, l.n);
            if (corrupt == 6) { l.s[k].litLength += 1 + (unsigned)rng_below(&rc, rng_coin(&rc, 1, 2) ? 3 : 100000); sim_fault_fired("list_lengths_exceed_source"); }
            else if (corrupt == 7) { size_t j; for (j = 0; j < l.n && l.s[k].litLength == 0; j++) k = (k + 1) % l.n; if (l.s[k].litLength == 0) { expect = 0; break; } l.s[k].litLength -= 1 + (unsigned)rng_below(&rc, l.s[k].litLength); sim_fault_fired("list_lengths_short_of_source"); }
            else { /* merge two blocks by deleting an inner delimiter whose removal makes a block larger than the block size */
                size_t j, blk = 0, prev = 0, found = (size_t)-1; size_t const lim = applied_bmax(p);
                for (j = 0; j + 1 < l.n; j++) { blk += l.s[j].litLength + l.s[j].matchLength; if (!l.s[j].matchLength && !l.s[j].offset) { if (prev && prev + blk > lim && found == (size_t)-1 && l.s[j].litLength == 0) { /* candidates: delimiter j closes block, previous block size prev */ } prev = blk; blk = 0; } }
                /* simpler: find an empty-literal delimiter between two blocks whose sizes sum above the limit */
                {   size_t bstart = 0, bsz = 0, lastdelim = (size_t)-1, lastsz = 0;
                    for (j = 0; j < l.n; j++) { bsz += l.s[j].litLength + l.s[j].matchLength; if (!l.s[j].matchLength && !l.s[j].offset) { if (lastdelim != (size_t)-1 && l.s[lastdelim].litLength == 0 && lastsz + bsz > lim) { found = lastdelim; break; } lastdelim = j; lastsz = bsz; bsz = 0; bstart = j + 1; } }
                    (void)bstart; }
                if (found == (size_t)-1) { expect = 0; break; }
                memmove(l.s + found, l.s + found + 1, (l.n - found - 1) * sizeof(ZSTD_Sequence)); l.n--;
                sim_fault_fired("list_block_too_large"); }
            break;
        default: {   /* arbitrary field corruption: memory safety only.  delimiter-free lists keep their cumulative length inside the source (documented scope) */
            int nf = 1 + (int)rng_below(&rc, 6), f; size_t total = 0;
            expect = 2; if (!l.n) break;
            for (f = 0; f < nf; f++) { unsigned* fld; k = (size_t)rng_below(&rc, l.n); fld = rng_below(&rc, 3) == 0 ? &l.s[k].offset : rng_coin(&rc, 1, 2) ? &l.s[k].litLength : &l.s[k].matchLength;
                switch (rng_below(&rc, 5)) { case 0: *fld = 0; break; case 1: *fld = (unsigned)rng_u64(&rc); break; case 2: *fld ^= 1u << rng_below(&rc, 32); break; case 3: *fld += (unsigned)rng_below(&rc, 9); break; default: *fld = (unsigned)rng_below(&rc, s.in_size + 2); break; } }
            if (!explicit_delims) for (k = 0; k < l.n; k++) { size_t const room = s.in_size - total; if (l.s[k].litLength > room) l.s[k].litLength = (unsigned)room; if (l.s[k].matchLength > room - l.s[k].litLength) l.s[k].matchLength = (unsigned)(room - l.s[k].litLength); total += l.s[k].litLength + l.s[k].matchLength; }
            sim_fault_fired("list_arbitrary_fields"); }
        }
        if (expect == 1 && s.in_size == 0) { expect = 2; sim_probe("c17.empty_source_list_ignored"); }   /* an empty source is framed without looking at the list: the result is a valid empty frame */
        if (expect == 0) sim_probe("c17.corruption_not_applicable");
        else if (corrupt <= 3) { snprintf(g_cdesc, sizeof g_cdesc, "seq %zu of %zu at position %zu: ll %u ml %u offset %u (window %zu, dictionary %zu)", k, l.n, pos, l.s[k].litLength, l.s[k].matchLength, l.s[k].offset, W, dcn); sim_event("corrupt %s", g_cdesc); }
    }
    /* ---- run ---- */
    cap = ZSTD_compressBound(s.in_size) + 4 * (l.nblocks + s.in_size / 1024 + 2) + 64;
    if (mode >= 2 && mode <= 3) cap += s.in_size / 64;
    dst = (uint8_t*)sim_buf_new(cap);
    if (mode <= 3) {
        seqbuf = (ZSTD_Sequence*)sim_buf_new(l.n * sizeof(ZSTD_Sequence) + (l.n ? 0 : 1)); if (l.n) memcpy(seqbuf, l.s, l.n * sizeof(ZSTD_Sequence));
        if (afail) sim_alloc_fail_at(sim_alloc_calls() + afail, 0);
        ret = ZSTD_compressSequences(c, dst, cap, seqbuf, l.n, s.in, s.in_size);
    } else {
        pr.p = p; pr.mm = mm; pr.validate = validate; pr.faults_enabled = 1;
        ZSTD_registerSequenceProducer(c, &pr, producer);
        
        if (afail) sim_alloc_fail_at(sim_alloc_calls() + afail, 0);
        if (mode == 4) ret = ZSTD_compress2(c, dst, cap, s.in, s.in_size);
        else { Rng rk; rng_seed(&rk, (uint64_t)plan_get(p, "chunk_seed", 1), "chunks"); ret = stream_all(c, dst, cap, s.in, s.in_size, &rk); }
        if (!combo && pr.fired) {
            int const k = pr.fired_kind;
            if (k <= 4) { if (!fallback) { expect = 1; expect_code = ZSTD_error_sequenceProducer_failed; } else sim_probe("c17.fallback_expected"); }
            else if (k == 5) { expect = 1; expect_code = ZSTD_error_externalSequences_invalid; }
            else expect = 2;
        }
        if (combo && pr.calls) sim_violation("unsupported_combo_ran", "producer was called %ld time(s) although %s is set", pr.calls, combo == 1 ? "nbWorkers>=1" : "long-distance matching");
    }
    sim_alloc_fail_at(0, 0);
    if ((e = sim_buf_check(dst)) != NULL) sim_violation("dst_overrun", "%s", e);
    if (seqbuf && (e = sim_buf_check(seqbuf)) != NULL) sim_violation("seq_overrun", "%s", e);
    if (!ZSTD_isError(ret) && ret > cap) sim_violation("over_capacity", "returned %zu > capacity %zu", ret, cap);
    sim_event("mode=%d corrupt=%d expect=%d ret=%s nseq=%zu prodcalls=%ld", mode, corrupt, expect, ZSTD_isError(ret) ? ZSTD_getErrorName(ret) : "ok", l.n, pr.calls);
    if (combo) { if (ZSTD_isError(ret)) { expect = 1; expect_code = ZSTD_error_parameter_combination_unsupported; } else sim_probe("c17.combo_not_reached"); }
    if (ZSTD_isError(ret) && sim_alloc_failed() && ZSTD_getErrorCode(ret) == ZSTD_error_memory_allocation) { sim_fault_fired("alloc_fail"); sim_probe("c17.alloc_failure_reported"); }
    else if (ZSTD_isError(ret)) {
        if (expect == 0) sim_violation(mode <= 3 ? "valid_parse_refused" : "producer_path_failed", "mode %d: %s (list of %zu sequences, %zu bytes, minMatch %u, window 2^%d, validate %d)", mode, ZSTD_getErrorName(ret), l.n, s.in_size, mm, sess_get_cparam(p, "windowLog", 0), validate);
        if (expect == 1 && expect_code && (int)ZSTD_getErrorCode(ret) != expect_code && !(pr.fired_kind == 5 && ZSTD_getErrorCode(ret) == ZSTD_error_sequenceProducer_failed))
            sim_violation("wrong_error", "expected %s, got %s", ZSTD_getErrorString((ZSTD_ErrorCode)expect_code), ZSTD_getErrorName(ret));
        sim_probe(expect == 1 ? "c17.rejected_as_required" : "c17.error_other");
    } else {
        if (expect == 1) {
            /* accepted although it had to be refused: show what was emitted */
            ZSTD_DCtx* d = ZSTD_createDCtx(); uint8_t* back = (uint8_t*)malloc(s.in_size + 1); size_t q; if (s.dict) ZSTD_DCtx_loadDictionary_advanced(d, s.dict, s.dict_size, ZSTD_dlm_byRef, structured ? ZSTD_dct_fullDict : ZSTD_dct_rawContent);
            q = ZSTD_decompressDCtx(d, back, s.in_size, dst, ret);
            if (mode <= 3) sim_violation("invalid_list_accepted", "corruption kind %d (%s) accepted with validateSequences=1; emitted frame %s", corrupt, g_cdesc, ZSTD_isError(q) ? "does not decode" : (q == s.in_size && !memcmp(back, s.in, q)) ? "decodes to the source" : "decodes to other bytes");
            sim_violation(pr.fired_kind == 5 ? "invalid_producer_parse_accepted" : "producer_failure_ignored", "producer fault kind %d at call %ld, fallback=%d: call succeeded; emitted frame %s", pr.fired_kind, pr.fired, fallback, ZSTD_isError(q) ? "does not decode" : "decodes");
        }
        if (expect == 0) {
            sess_check_conformance(dst, ret, s.in, s.in_size, s.dict, s.dict_size, !structured, 0, want_id, 1, p);
            sess_check_lib_roundtrip(dst, ret, s.in, s.in_size, s.dict, s.dict_size, !structured, 0);
            sim_mark_nontrivial(); sim_probe(mode <= 1 ? "c17.own_parse_roundtrip" : mode <= 3 ? "c17.extracted_roundtrip" : pr.fired ? "c17.fallback_roundtrip" : "c17.producer_roundtrip");
            if (l.nblocks > 1 || s.in_size > bmax) sim_probe("c17.multi_block");
        } else sim_probe("c17.garbage_accepted");
    }
    if (expect) sim_mark_nontrivial();
    /* ---- the context stays usable (call failed as configured, nothing else broke) ---- */
    if (ZSTD_isError(ret) || expect == 2) {
        size_t r2; ZSTD_CCtx_reset(c, ZSTD_reset_session_only);
        if (mode >= 4) { pr.faults_enabled = 0; pr.calls = 0; pr.abs_pos = 0; pr.fired = 0; ZSTD_CCtx_setParameter(c, ZSTD_c_nbWorkers, 0); ZSTD_CCtx_setParameter(c, ZSTD_c_enableLongDistanceMatching, ZSTD_ps_disable); }
        else { ZSTD_CCtx_reset(c, ZSTD_reset_parameters); ZSTD_CCtx_setParameter(c, ZSTD_c_compressionLevel, 3); s.dict_size = 0; }
        r2 = ZSTD_compress2(c, dst, cap, s.in, s.in_size);
        if ((e = sim_buf_check(dst)) != NULL) sim_violation("dst_overrun", "after reuse: %s", e);
        if (ZSTD_isError(r2)) sim_violation("context_unusable_after_failure", "after %s: next frame fails with %s", ZSTD_isError(ret) ? ZSTD_getErrorName(ret) : "garbage list", ZSTD_getErrorName(r2));
        sess_check_lib_roundtrip(dst, r2, s.in, s.in_size, NULL, 0, 0, 0);
        sim_probe("c17.reuse_after_failure");
    }
    sim_buf_free(dst); if (seqbuf) sim_buf_free(seqbuf);
done:
    ZSTD_freeCCtx(c); ZSTD_freeCDict(cd); free(ps.t); free(l.s); sess_buf_cache_drop();
    if (sim_alloc_live_blocks() != 0) sim_violation("leak", "%ld allocator block(s) live at end", sim_alloc_live_blocks());
    if ((e = sim_alloc_check()) != NULL) sim_violation("heap_corruption", "%s", e);
    sess_free(&s);
}
const Scenario scen_c17seq = { "c17seq", "C17", gen, exec };
