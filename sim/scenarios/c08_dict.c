/* c08_dict.c — C08: dictionary compression round-trips for every dictionary the library loads, every supply mode.
 * Simulated dimensions: the dictionary is state held by TWO parties (compressor / decompressor store) and shared by
 * several threads.  (i) store faults: the decoder holds another dictionary (other ID), the same ID with other content,
 * a truncated or bit-flipped copy -> wrong ID must be refused (dictionary_wrong), a corrupted structured dictionary must
 * fail to load or fail to decode (checksummed frames), never return wrong bytes as success; arbitrary bytes offered as a
 * dictionary on either side are safe.  (ii) sharing: one CDict / DDict used concurrently by two simulated caller threads
 * (simsched + TSan).  (iii) histories: context reuse across attach / copy / load, dictionary scrolled out of the window.
 * Riding along (generated workload): supply-mode x level x dictionary-structure matrix, incl. mutated entropy headers kept
 * only if the loader accepts them. */
#include "../io/sess.h"
#include "scenarios.h"
#define FSE_STATIC_LINKING_ONLY
#include "fse.h"
#include "huf.h"

/* hand-built structured dictionary: entropy tables drawn by the simulator, not trained.  Huffman table from random counts
 * over a random subset of symbols; offset-code table holding exactly the codes the loader demands (every offset up to
 * content + 128 KiB) plus an optional few above; match-length / literal-length tables over random subsets; random table
 * logs; random (legal) repeat offsets.  Serialised with the library's own table writers so that they are well formed. */
static size_t fse_table(uint8_t* op, size_t cap, Rng* r, unsigned maxsym, unsigned must_upto, unsigned maxlog, int all) {
    unsigned count[64]; short norm[64]; unsigned k, present = 0, top = 0; size_t total = 0, tl, w; unsigned tableLog;
    for (k = 0; k <= maxsym; k++) { int const in = all || k <= must_upto || rng_coin(r, 1, 3); count[k] = in ? 1 + (unsigned)rng_below(r, rng_coin(r, 1, 4) ? 2000 : 30) : 0; if (count[k]) { present++; top = k; total += count[k]; } }
    if (present < 2) { count[0] = 5; count[1] = 3; total = 0; present = 0; top = 0; for (k = 0; k <= maxsym; k++) if (count[k]) { present++; top = k; total += count[k]; } }
    tableLog = 5 + (unsigned)rng_below(r, maxlog - 4); while ((1u << tableLog) < present + 1 && tableLog < maxlog) tableLog++;
    tl = FSE_normalizeCount(norm, tableLog, count, total, top, (unsigned)rng_below(r, 2));
    if (FSE_isError(tl)) return 0;
    w = FSE_writeNCount(op, cap, norm, top, (unsigned)tl);
    return FSE_isError(w) ? 0 : w;
}
static size_t build_synth_dict(uint8_t* dst, size_t cap, Rng* r, const uint8_t* content, size_t clen, unsigned id) {
    uint8_t* op = dst; size_t w; unsigned k;
    if (cap < clen + 1200) return 0;
    op[0] = 0x37; op[1] = 0xA4; op[2] = 0x30; op[3] = 0xEC; op[4] = (uint8_t)id; op[5] = (uint8_t)(id >> 8); op[6] = (uint8_t)(id >> 16); op[7] = (uint8_t)(id >> 24); op += 8;
    {   unsigned count[256]; HUF_CREATE_STATIC_CTABLE(ct, 255); static unsigned wk[HUF_CTABLE_WORKSPACE_SIZE_U32]; unsigned maxs = 0, present = 0; size_t bits;
        int const shape = (int)rng_below(r, 3);   /* 0 all 256 symbols, 1 random subset (zero weights inside), 2 symbols 0..m only, none missing below m (table stops short, no zero weight) */
        unsigned const m = 1 + (unsigned)rng_below(r, rng_coin(r, 1, 2) ? 127 : 254);
        for (k = 0; k < 256; k++) { int const in = shape == 0 || (shape == 1 && rng_coin(r, 1, 2)) || (shape == 2 && k <= m); count[k] = in ? 1 + (unsigned)rng_below(r, rng_coin(r, 1, 5) ? 5000 : 40) : 0; if (count[k]) { maxs = k; present++; } }
        if (present < 2) { count[0] = 3; count[1] = 2; maxs = maxs > 1 ? maxs : 1; }
        bits = HUF_buildCTable_wksp(ct, count, maxs, 8 + (unsigned)rng_below(r, 4), wk, sizeof wk);
        if (HUF_isError(bits)) return 0;
        w = HUF_writeCTable_wksp(op, 300, ct, maxs, (unsigned)bits, wk, sizeof wk);
        if (HUF_isError(w)) return 0;
        op += w; }
    {   size_t const maxoff = clen + (128u << 10); unsigned need = 0; while (((size_t)2 << need) <= maxoff + 3) need++;   /* highest offset code the loader wants representable */
        if (need > 30) need = 30;
        w = fse_table(op, 200, r, rng_coin(r, 1, 2) ? need : need + (unsigned)rng_below(r, 31 - need), need, 8, 0); if (!w) return 0; op += w; }
    w = fse_table(op, 200, r, 52, 0, 9, rng_coin(r, 1, 2)); if (!w) return 0; op += w;
    w = fse_table(op, 200, r, 35, 0, 9, rng_coin(r, 1, 2)); if (!w) return 0; op += w;
    for (k = 0; k < 3; k++) { uint32_t rep = clen ? 1 + (uint32_t)rng_below(r, rng_coin(r, 1, 2) ? (clen < 16 ? clen : 16) : clen) : 1; if (clen && rng_coin(r, 1, 5)) { rep = (uint32_t)clen; sim_probe("c08.rep_equals_content_size"); }   /* edge of the documented range: a recent offset reaching the first content byte */ op[0] = (uint8_t)rep; op[1] = (uint8_t)(rep >> 8); op[2] = (uint8_t)(rep >> 16); op[3] = (uint8_t)(rep >> 24); op += 4; }
    memcpy(op, content, clen); op += clen;
    return (size_t)(op - dst);
}

typedef struct { const uint8_t* in; size_t n; const ZSTD_CDict* cd; const ZSTD_DDict* dd; int level; int ok; size_t csize; } Shared;

static void gen(Plan* p, Rng* r, int tier, long idx) {
    (void)idx;
    sess_gen_input_params(p, r, tier ? (600u << 10) : (150u << 10));
    sess_gen_cparams(p, r, GP_NOMT | GP_NOFORMAT);
    plan_set(p, "dict_kind", rng_range(r, 1, 2)); plan_set(p, "dict_size", rng_coin(r, 1, 8) ? (int64_t)rng_below(r, 12) : (int64_t)(8 + rng_size(r, 110 << 10))); plan_set(p, "dict_seed", (int64_t)(rng_u64(r) >> 2));
    plan_set(p, "dict_id", rng_coin(r, 1, 2) ? 0 : rng_range(r, 1, 1 << 30));
    plan_set(p, "cmode", (int64_t)rng_below(r, 6));    /* 0 usingDict 1 CDict byCopy 2 CDict byRef 3 loadDictionary 4 refCDict(stream) 5 refPrefix */
    plan_set(p, "dmode", (int64_t)rng_below(r, 6));    /* 0 usingDict 1 DDict 2 loadDictionary 3 refDDict(stream) 4 multi-DDict 5 (prefix) refPrefix */
    plan_set(p, "mutate_header", rng_coin(r, 1, 5) ? (int64_t)(1 + rng_below(r, 6)) : 0);
    plan_set(p, "mut_seed", (int64_t)(rng_u64(r) >> 2));
    plan_set(p, "store_fault", (idx % 3) == 2 ? (int64_t)(1 + rng_below(r, 4)) : 0);   /* 1 other ID, 2 same ID other content, 3 truncated, 4 bit flip */
    plan_set(p, "share", (idx % 5) == 4);
    plan_set(p, "reuse", (int64_t)rng_below(r, 3));
    plan_set(p, "synth_dict", (idx % 4) == 1);          /* hand-built entropy tables instead of trained ones */
    plan_set(p, "in_shape", (idx % 8) == 1 || (idx % 8) == 6);   /* 1: uncompressible 128 KiB blocks first, then a block of far references (dictionary start, first block) */
    plan_set(p, "shape_seed", (int64_t)(rng_u64(r) >> 2));
    /* declared content type: the dictionary is DECLARED raw content although its bytes may look like (or be) a formatted dictionary; with every attach preference */
    if ((idx % 8) == 3) { plan_set(p, "dct_raw", 1); plan_set(p, "raw_magic", (int64_t)rng_below(r, 3)); plan_set(p, "attach", (int64_t)rng_below(r, 4)); plan_set(p, "cmode", 1 + (int64_t)rng_below(r, 5)); plan_set(p, "store_fault", 0); plan_set(p, "share", 0); plan_set(p, "mutate_header", 0); plan_set(p, "synth_dict", 0); }
    sim_sched_plan_defaults(p, r, 0);
}

static void* share_thread(void* arg) {
    Shared* sh = (Shared*)arg; ZSTD_CCtx* c = ZSTD_createCCtx(); ZSTD_DCtx* d = ZSTD_createDCtx(); size_t cap = ZSTD_compressBound(sh->n) + 64; uint8_t* dst = (uint8_t*)malloc(cap); uint8_t* back = (uint8_t*)malloc(sh->n + 1); int k;
    sh->ok = 1;
    for (k = 0; k < 3; k++) {
        size_t r = ZSTD_compress_usingCDict(c, dst, cap, sh->in, sh->n, sh->cd), q;
        if (ZSTD_isError(r)) { sh->ok = 0; break; }
        sim_yield();
        q = ZSTD_decompress_usingDDict(d, back, sh->n, dst, r, sh->dd);
        if (ZSTD_isError(q) || q != sh->n || (q && memcmp(back, sh->in, q))) { sh->ok = 0; break; }
        sh->csize = r; sim_yield();
    }
    ZSTD_freeCCtx(c); ZSTD_freeDCtx(d); free(dst); free(back);
    return NULL;
}

static void exec(const Plan* p) {
    Sess s; ZSTD_CCtx* c; ZSTD_CDict* cd = NULL; size_t cap, r = 0; uint8_t* dst; const char* e; int cmode = (int)plan_get(p, "cmode", 0), dmode = (int)plan_get(p, "dmode", 0);
    int const level = sess_get_cparam(p, "compressionLevel", 3); unsigned did_dict, did_frame; int raw_prefix; int const sf = (int)plan_get(p, "store_fault", 0); int const raw_decl = plan_get(p, "dct_raw", 0) && cmode >= 1; ZSTD_dictContentType_e const dct = raw_decl ? ZSTD_dct_rawContent : ZSTD_dct_auto;
    sess_init(&s); sess_make_input(&s, p);
    { size_t want = (size_t)plan_get(p, "dict_size", 0); if (want < 8) { Rng r0; rng_seed(&r0, (uint64_t)plan_get(p, "dict_seed", 1), "tiny"); s.dict = (uint8_t*)malloc(want + 1); s.dict_size = want; gen_input(&r0, GEN_TEXT, s.dict, want); } else sess_make_dict(&s, p); }
    /* unusual entropy tables: mutate bytes of the structured header; keep only if BOTH loaders accept */
    if (plan_get(p, "mutate_header", 0) && s.dict_size > 200 && s.dict[0] == 0x37 && s.dict[1] == 0xA4) {
        Rng rm; int k, nm = (int)plan_get(p, "mutate_header", 1); uint8_t* m = (uint8_t*)malloc(s.dict_size); ZSTD_CDict* tc; ZSTD_DDict* td; memcpy(m, s.dict, s.dict_size); rng_seed(&rm, (uint64_t)plan_get(p, "mut_seed", 1), "dictmut");
        for (k = 0; k < nm; k++) m[8 + rng_below(&rm, 160)] ^= (uint8_t)(1u << rng_below(&rm, 8));
        tc = ZSTD_createCDict(m, s.dict_size, 3); td = ZSTD_createDDict(m, s.dict_size);
        if (tc && td) { free(s.dict); s.dict = m; sim_probe("c08.mutated_header_accepted"); } else { free(m); sim_probe("c08.mutated_header_rejected_by_loader"); }
        ZSTD_freeCDict(tc); ZSTD_freeDDict(td);
    }
    if (plan_get(p, "synth_dict", 0) && s.dict_size >= 8) {
        Rng rs; size_t clen = s.dict_size > 600 ? s.dict_size / 2 : s.dict_size / 2 + 1, n; uint8_t* m = (uint8_t*)malloc(s.dict_size + 2000); unsigned id = (unsigned)plan_get(p, "dict_id", 0); ZSTD_CDict* tc; ZSTD_DDict* td;
        rng_seed(&rs, (uint64_t)plan_get(p, "shape_seed", 1), "synthdict"); if (!id) id = 32768 + (unsigned)rng_below(&rs, 1u << 30);
        n = build_synth_dict(m, s.dict_size + 2000, &rs, s.dict + (s.dict_size - clen), clen, id);
        tc = n ? ZSTD_createCDict(m, n, 3) : NULL; td = n ? ZSTD_createDDict(m, n) : NULL;
        /* a dictionary the compressor agrees to load and the decoder refuses yields frames nobody can decode (the reverse is harmless: the compression loader is documented as the stricter one) */
        if (tc && !td) sim_violation("cdict_accepted_ddict_refused", "hand-built dictionary (%zu bytes, content %zu, id %u): ZSTD_createCDict accepts it, ZSTD_createDDict refuses it", n, clen, id);
        if (tc && td && ZSTD_getDictID_fromDict(m, n) == id) { free(s.dict); s.dict = m; s.dict_size = n; sim_probe("c08.synth_dict_accepted"); } else { free(m); sim_probe(n ? "c08.synth_dict_rejected_by_loader" : "c08.synth_dict_not_built"); }
        ZSTD_freeCDict(tc); ZSTD_freeDDict(td);
    }
    if (plan_get(p, "in_shape", 0) == 1) {
        Rng rs; size_t const nb = 1 + (size_t)(plan_get(p, "shape_seed", 0) & 1), blk = (size_t)128 << 10; size_t tail, total, o; uint8_t* in2; int rle;
        rng_seed(&rs, (uint64_t)plan_get(p, "shape_seed", 1), "farshape"); tail = 6000 + (size_t)rng_below(&rs, 90000); total = nb * blk + tail; in2 = (uint8_t*)malloc(total);
        rle = rng_coin(&rs, 1, 4);
        gen_input(&rs, GEN_RANDOM, in2, nb * blk); if (rle && nb == 2) memset(in2 + blk, in2[blk], blk);   /* first block noise (raw), second sometimes one repeated byte (RLE) */
        for (o = nb * blk; o < total; ) {
            size_t len = 8 + (size_t)rng_below(&rs, rng_coin(&rs, 1, 2) ? 120 : 4000), from; const uint8_t* srcp; size_t srcn; unsigned const pick = (unsigned)rng_below(&rs, 8);
            if (pick < 3 && s.dict_size > 64) { srcp = s.dict + s.dict_size / 2; srcn = s.dict_size - s.dict_size / 2; }         /* dictionary content: the farthest history there is */
            else if (pick < 5) { srcp = in2; srcn = blk; }                                                               /* first block */
            else if (pick < 7 && s.in_size > 16) { srcp = s.in; srcn = s.in_size; }
            else { srcp = NULL; srcn = 0; }
            if (len > total - o) len = total - o;
            if (srcp && srcn > 8) { if (len > srcn) len = srcn; from = (size_t)rng_below(&rs, srcn - len + 1); memcpy(in2 + o, srcp + from, len); }
            else { len = len > 60 ? 60 : len; gen_input(&rs, GEN_RANDOM, in2 + o, len); }
            o += len;
        }
        free(s.in); s.in = in2; s.in_size = total; sim_probe("c08.far_reference_input");
    }
    if (raw_decl && plan_get(p, "raw_magic", 0) == 1 && s.dict_size >= 8) { s.dict[0] = 0x37; s.dict[1] = 0xA4; s.dict[2] = 0x30; s.dict[3] = 0xEC; }   /* arbitrary content that merely starts with the dictionary magic */
    raw_prefix = (cmode == 5) || raw_decl;
    did_dict = raw_prefix ? 0 : ZSTD_getDictID_fromDict(s.dict, s.dict_size);
    cap = ZSTD_compressBound(s.in_size) + 64; dst = (uint8_t*)malloc(cap);
    c = ZSTD_createCCtx_advanced(sess_cmem());
    /* optional history on the same context: another dictionary mode first */
    if (plan_get(p, "reuse", 0) && s.dict_size >= 8) { ZSTD_CCtx_reset(c, ZSTD_reset_session_and_parameters); ZSTD_CCtx_setParameter(c, ZSTD_c_forceAttachDict, (int)plan_get(p, "reuse", 0)); ZSTD_CCtx_loadDictionary(c, s.dict, s.dict_size / 2 + 4); r = ZSTD_compress2(c, dst, cap, s.in, s.in_size / 2); if (ZSTD_isError(r)) { /* the history frame uses a TRUNCATED copy of the dictionary: a structured one cut inside its tables is legitimately refused (reported as dictionary_corrupted or, through the local-dictionary path, memory_allocation) */ if (s.dict[0] == 0x37 && s.dict[1] == 0xA4 && s.dict[2] == 0x30 && s.dict[3] == 0xEC && ZSTD_createCDict(s.dict, s.dict_size / 2 + 4, 3) == NULL) sim_probe("c08.history_truncated_dict_refused"); else sim_violation("compress_error", "history frame: %s", ZSTD_getErrorName(r)); } ZSTD_CCtx_reset(c, ZSTD_reset_session_and_parameters); }
    /* ---- compress ---- */
    if (cmode == 0) r = ZSTD_compress_usingDict(c, dst, cap, s.in, s.in_size, s.dict, s.dict_size, level);
    else if (cmode == 1 || cmode == 2) { cd = ZSTD_createCDict_advanced(s.dict, s.dict_size, cmode == 1 ? ZSTD_dlm_byCopy : ZSTD_dlm_byRef, dct, ZSTD_getCParams(level, s.in_size, s.dict_size), sess_cmem());
        if (!cd) { if (raw_decl) sim_violation("cdict_rejected", "createCDict_advanced rejects a dictionary of %zu bytes declared raw content", s.dict_size); if (s.dict_size >= 8 && !(s.dict[0] == 0x37 && s.dict[1] == 0xA4 && s.dict[2] == 0x30 && s.dict[3] == 0xEC)) sim_violation("cdict_rejected", "createCDict_advanced rejects a raw-content dictionary of %zu bytes", s.dict_size); goto done; }
        r = ZSTD_compress_usingCDict(c, dst, cap, s.in, s.in_size, cd); }
    else { sess_apply_cparams(c, p); ZSTD_CCtx_setParameter(c, ZSTD_c_nbWorkers, 0);
        if (plan_get(p, "dct_raw", 0)) ZSTD_CCtx_setParameter(c, ZSTD_c_forceAttachDict, (int)plan_get(p, "attach", 0));   /* default / attach / copy / load */
        if (cmode == 3) r = raw_decl ? ZSTD_CCtx_loadDictionary_advanced(c, s.dict, s.dict_size, ZSTD_dlm_byCopy, dct) : ZSTD_CCtx_loadDictionary(c, s.dict, s.dict_size);
        else if (cmode == 4) { cd = ZSTD_createCDict_advanced(s.dict, s.dict_size, ZSTD_dlm_byCopy, dct, ZSTD_getCParams(level, 0, s.dict_size), sess_cmem()); if (!cd) { if (raw_decl) sim_violation("cdict_rejected", "createCDict_advanced rejects a dictionary of %zu bytes declared raw content", s.dict_size); goto done; } r = ZSTD_CCtx_refCDict(c, cd); }
        else r = ZSTD_CCtx_refPrefix(c, s.dict, s.dict_size);
        if (ZSTD_isError(r)) { if (raw_decl) sim_violation("raw_dictionary_rejected", "a dictionary declared raw content is refused by the loader (cmode %d): %s", cmode, ZSTD_getErrorName(r)); sim_probe("c08.dictionary_rejected_by_loader"); goto done; }
        { ZSTD_inBuffer in; ZSTD_outBuffer out; size_t half = s.in_size / 2; in.src = s.in; in.size = half; in.pos = 0; out.dst = dst; out.size = cap; out.pos = 0;
          r = ZSTD_compressStream2(c, &out, &in, ZSTD_e_continue); if (!ZSTD_isError(r)) { in.size = s.in_size; do { r = ZSTD_compressStream2(c, &out, &in, ZSTD_e_end); } while (!ZSTD_isError(r) && r != 0); } if (!ZSTD_isError(r)) r = out.pos; } }
    if (ZSTD_isError(r)) {
        if (raw_decl) sim_violation("raw_dictionary_rejected", "compression with a dictionary declared raw content fails (cmode %d, attach preference %d): %s", cmode, (int)plan_get(p, "attach", 0), ZSTD_getErrorName(r));
        if (ZSTD_getErrorCode(r) == ZSTD_error_dictionary_corrupted || ZSTD_getErrorCode(r) == ZSTD_error_dictionaryCreation_failed) { sim_probe("c08.dictionary_rejected_by_loader"); goto done; }
        sim_violation("compress_error", "compression with an accepted dictionary fails (cmode %d): %s", cmode, ZSTD_getErrorName(r));
    }
    /* ---- header truth: dictID ---- */
    did_frame = ZSTD_getDictID_fromFrame(dst, r);
    { int const flag = (cmode >= 3) ? sess_get_cparam(p, "dictIDFlag", 1) : 1; unsigned expect = (flag && !raw_prefix) ? did_dict : 0;
      if (did_frame != expect) sim_violation("dictid_mismatch", "frame records dictID %u, dictionary has %u (dictIDFlag %d, cmode %d)", did_frame, did_dict, flag, cmode);
      if (cd && ZSTD_getDictID_fromCDict(cd) != did_dict) sim_violation("dictid_mismatch", "getDictID_fromCDict %u != getDictID_fromDict %u", ZSTD_getDictID_fromCDict(cd), did_dict); }
    if (raw_decl) sim_probe("c08.declared_raw_content");
    sess_check_conformance(dst, r, s.in, s.in_size, s.dict, s.dict_size, raw_prefix, 0, 0, 0, cmode >= 3 ? p : NULL);
    /* ---- decode with the right dictionary through dmode ---- */
    { ZSTD_DCtx* d = ZSTD_createDCtx_advanced(sess_cmem()); ZSTD_DDict* dd = NULL; ZSTD_DDict* others[3] = { 0, 0, 0 }; uint8_t* back = (uint8_t*)sim_buf_new(s.in_size); size_t q; uint8_t od[3][64]; int k;
      ZSTD_DCtx_setParameter(d, ZSTD_d_windowLogMax, 31);
      if (raw_prefix) dmode = 5;
      if (dmode == 5 && !raw_prefix) dmode = 2;
      switch (dmode) {
      case 0: q = ZSTD_decompress_usingDict(d, back, s.in_size, dst, r, s.dict, s.dict_size); break;
      case 1: dd = ZSTD_createDDict_advanced(s.dict, s.dict_size, ZSTD_dlm_byRef, ZSTD_dct_auto, sess_cmem()); q = dd ? ZSTD_decompress_usingDDict(d, back, s.in_size, dst, r, dd) : (size_t)-ZSTD_error_memory_allocation;
          if (dd && ZSTD_getDictID_fromDDict(dd) != did_dict) sim_violation("dictid_mismatch", "getDictID_fromDDict %u != getDictID_fromDict %u", ZSTD_getDictID_fromDDict(dd), did_dict); break;
      case 2: ZSTD_DCtx_loadDictionary(d, s.dict, s.dict_size); q = ZSTD_decompressDCtx(d, back, s.in_size, dst, r); break;
      case 3: { ZSTD_inBuffer in; ZSTD_outBuffer out; dd = ZSTD_createDDict_advanced(s.dict, s.dict_size, ZSTD_dlm_byCopy, ZSTD_dct_auto, sess_cmem()); ZSTD_DCtx_refDDict(d, dd); in.src = dst; in.size = r; in.pos = 0; out.dst = back; out.size = s.in_size; out.pos = 0; q = 1;
          while (in.pos < in.size && !ZSTD_isError(q)) q = ZSTD_decompressStream(d, &out, &in); if (!ZSTD_isError(q)) q = out.pos; break; }
      case 4: { ZSTD_DCtx_setParameter(d, ZSTD_d_refMultipleDDicts, ZSTD_rmd_refMultipleDDicts);
          for (k = 0; k < 3; k++) { ZDICT_params_t zp; size_t z; memset(&zp, 0, sizeof zp); zp.dictID = 777 + (unsigned)k; memset(od[k], 'a' + k, sizeof od[k]); (void)z; others[k] = ZSTD_createDDict_advanced(od[k], sizeof od[k], ZSTD_dlm_byRef, ZSTD_dct_rawContent, sess_cmem()); if (others[k]) ZSTD_DCtx_refDDict(d, others[k]); }
          dd = ZSTD_createDDict_advanced(s.dict, s.dict_size, ZSTD_dlm_byCopy, ZSTD_dct_auto, sess_cmem()); ZSTD_DCtx_refDDict(d, dd); q = ZSTD_decompressDCtx(d, back, s.in_size, dst, r); break; }
      default: ZSTD_DCtx_refPrefix_advanced(d, s.dict, s.dict_size, ZSTD_dct_rawContent); q = ZSTD_decompressDCtx(d, back, s.in_size, dst, r); break;
      }
      if ((e = sim_buf_check(back)) != NULL) sim_violation("dst_overrun", "%s", e);
      if (ZSTD_isError(q) || q != s.in_size || (q && memcmp(back, s.in, q))) sim_violation("roundtrip_error", "dictionary round trip fails (cmode %d, dmode %d, dict %zu bytes, id %u): %s", cmode, dmode, s.dict_size, did_dict, ZSTD_isError(q) ? ZSTD_getErrorName(q) : "content differs");
      sim_probe("c08.roundtrips");
      /* ---- store faults: the decoder's copy is wrong ---- */
      if (sf && s.dict_size >= 16) {
          uint8_t* wrong = (uint8_t*)malloc(s.dict_size + 8); size_t wn = s.dict_size; size_t qq; ZSTD_DCtx* d2 = ZSTD_createDCtx(); int structured = s.dict[0] == 0x37 && s.dict[1] == 0xA4 && s.dict[2] == 0x30 && s.dict[3] == 0xEC; int has_checksum = (cmode >= 3) && sess_get_cparam(p, "checksumFlag", 0);
          memcpy(wrong, s.dict, s.dict_size);
          if (sf == 1 && structured) { wrong[4] ^= 0x01; sim_fault_fired("dict_store_other_id"); }
          else if (sf == 2) { size_t k2; for (k2 = s.dict_size / 2; k2 < s.dict_size; k2++) wrong[k2] = (uint8_t)(wrong[k2] * 7 + 1); sim_fault_fired("dict_store_other_content"); }
          else if (sf == 3) { wn = s.dict_size / 2 + 4; sim_fault_fired("dict_store_truncated"); }
          else { wrong[(size_t)plan_get(p, "mut_seed", 0) % s.dict_size] ^= 0x10; sim_fault_fired("dict_store_bitflip"); }
          qq = ZSTD_decompress_usingDict(d2, back, s.in_size, dst, r, wrong, wn);
          if ((e = sim_buf_check(back)) != NULL) sim_violation("dst_overrun", "decode with a wrong dictionary: %s", e);
          if (sf == 1 && structured && did_frame != 0) { if (!ZSTD_isError(qq)) sim_violation("wrong_dictid_accepted", "frame names dictID %u, decoder holds dictID %u, decoding reports success", did_frame, ZSTD_getDictID_fromDict(wrong, wn)); if (ZSTD_getErrorCode(qq) != ZSTD_error_dictionary_wrong) sim_violation("wrong_dictid_error_code", "wrong dictionary ID reported as: %s", ZSTD_getErrorName(qq)); sim_probe("c08.wrong_id_refused"); }
          else if (!ZSTD_isError(qq) && has_checksum && (qq != s.in_size || memcmp(back, s.in, qq))) sim_violation("wrong_dict_wrong_bytes", "checksummed frame decoded with a damaged dictionary returns success with wrong content");
          ZSTD_freeDCtx(d2); free(wrong);
      }
      ZSTD_freeDCtx(d); ZSTD_freeDDict(dd); for (k = 0; k < 3; k++) ZSTD_freeDDict(others[k]); sim_buf_free(back); }
    /* ---- sharing: one CDict + one DDict, two simulated caller threads ---- */
    if (plan_get(p, "share", 0) && s.dict_size >= 8) {
        Shared a, b; int t1; ZSTD_CDict* scd = ZSTD_createCDict(s.dict, s.dict_size, level > 12 ? 3 : level); ZSTD_DDict* sdd = ZSTD_createDDict(s.dict, s.dict_size);
        if (scd && sdd) { memset(&a, 0, sizeof a); a.in = s.in; a.n = s.in_size; a.cd = scd; a.dd = sdd; b = a; b.n = s.in_size / 2;
            t1 = sim_spawn(share_thread, &b); share_thread(&a); if (t1 > 0) sim_join_tid(t1);
            if (!a.ok || (t1 > 0 && !b.ok)) sim_violation("shared_dict_failure", "CDict/DDict shared by two threads: a round trip failed");
            sim_probe("c08.shared_dict_runs"); }
        ZSTD_freeCDict(scd); ZSTD_freeDDict(sdd);
    }
    sim_mark_nontrivial();
done:
    ZSTD_freeCCtx(c); ZSTD_freeCDict(cd); free(dst); sess_buf_cache_drop();
    if (sim_alloc_live_blocks() != 0) sim_violation("leak", "%ld allocator block(s) live at end", sim_alloc_live_blocks());
    if ((e = sim_alloc_check()) != NULL) sim_violation("heap_corruption", "%s", e);
    sess_free(&s);
}
const Scenario scen_c08dict = { "c08dict", "C08", gen, exec };
