/* c18_train.c — C18: dictionary training yields a usable dictionary or an error, never a bad one.
 * Simulated dimensions: (i) the optimisers' worker threads (POOL + COVER_best mutex/cond) run under the deterministic
 * scheduler, every interleaving decided by the seed, ThreadSanitizer flavour watching the shared "best" state; (ii) the
 * libc allocator seam fails the k-th allocation inside the trainer; (iii) the run is repeated in the same process with
 * nbThreads <= 1 and must return the same bytes (history / determinism).  Generated workload: sample sets (0..N samples,
 * sizes 0..large, tiny alphabets, identical samples, totals below the minimums), capacities, algorithms and parameter
 * vectors including out-of-contract values.  Oracle: error / 0, or a dictionary <= capacity inside an exactly sized
 * guarded buffer that both loaders accept, with one non-zero ID reported by all four ID queries, with which every sample
 * round-trips. */
#include "../io/sess.h"
#include "scenarios.h"

enum { A_DEFAULT = 0, A_COVER, A_COVER_OPT, A_FAST, A_FAST_OPT, A_LEGACY, A_FINALIZE, A_ADDENTROPY, A_N };
static const char* const g_alg[A_N] = { "trainFromBuffer", "cover", "optimize_cover", "fastCover", "optimize_fastCover", "legacy", "finalizeDictionary", "addEntropyTables" };

static void gen(Plan* p, Rng* r, int tier, long idx) {
    int alg = (int)(idx % A_N); int threads; size_t total_max = tier ? (600u << 10) : (160u << 10);
    plan_set(p, "alg", alg);
    /* sample set */
    plan_set(p, "set_kind", (int64_t)rng_below(r, 10));   /* 0 none, 1 one sample, 2 few tiny, 3 all identical, 4 tiny alphabet, 5 below minimums, 6 one huge + crumbs, 7.. typical */
    plan_set(p, "nb", (int64_t)(rng_coin(r, 1, 6) ? rng_below(r, 6) : 5 + rng_below(r, tier ? 400 : 120)));
    plan_set(p, "in_kind", (int64_t)rng_below(r, GEN_NKINDS));
    plan_set(p, "total", (int64_t)(rng_coin(r, 1, 5) ? rng_below(r, 3000) : 2000 + rng_below(r, total_max)));
    plan_set(p, "in_seed", (int64_t)(rng_u64(r) >> 2));
    /* capacity */
    switch (rng_below(r, 8)) { case 0: plan_set(p, "cap", (int64_t)rng_below(r, 300)); break; case 1: plan_set(p, "cap", 256 + (int64_t)rng_below(r, 64)); break; case 2: plan_set(p, "cap", 112640); break;
        default: plan_set(p, "cap", 300 + (int64_t)rng_below(r, rng_coin(r, 1, 2) ? 4000 : 60000)); break; }
    /* parameters; a share outside the documented constraints */
    plan_set(p, "k", rng_coin(r, 1, 8) ? (int64_t)rng_below(r, 8) : rng_coin(r, 1, 8) ? (int64_t)(1u << 20) : 16 + (int64_t)rng_below(r, rng_coin(r, 1, 2) ? 200 : 2048));
    plan_set(p, "d", rng_coin(r, 1, 6) ? (int64_t)rng_below(r, 40) : (rng_coin(r, 1, 2) ? 6 : 8));
    plan_set(p, "f", rng_coin(r, 1, 8) ? (int64_t)rng_below(r, 40) : 8 + (int64_t)rng_below(r, 13));
    plan_set(p, "accel", rng_coin(r, 1, 8) ? (int64_t)rng_below(r, 14) : 1 + (int64_t)rng_below(r, 10));
    plan_set(p, "steps", (int64_t)rng_below(r, tier ? 8 : 5));
    plan_set(p, "split1000", rng_coin(r, 1, 6) ? (int64_t)rng_below(r, 1300) : rng_coin(r, 1, 2) ? 0 : (rng_coin(r, 1, 2) ? 750 : 1000));
    plan_set(p, "shrink", (int64_t)rng_below(r, 2)); plan_set(p, "shrink_reg", (int64_t)rng_below(r, 12));
    plan_set(p, "zero_kd", rng_coin(r, 1, 3));   /* optimisers: k = d = 0 means search */
    threads = (alg == A_COVER_OPT || alg == A_FAST_OPT) ? (int)((idx / A_N) % 4 == 0 ? rng_below(r, 2) : 2 + rng_below(r, 3)) : (int)rng_below(r, 2);
    plan_set(p, "threads", threads);
    plan_set(p, "level", rng_coin(r, 1, 2) ? 0 : rng_range(r, -5, 19)); plan_set(p, "dict_id", rng_coin(r, 1, 2) ? 0 : rng_range(r, 1, 1u << 31));
    plan_set(p, "sel_div", rng_coin(r, 1, 2) ? 0 : (int64_t)rng_below(r, 12));
    plan_set(p, "content_size", (int64_t)rng_below(r, 5000));
    plan_set(p, "alloc_fail", rng_coin(r, 1, 6) ? 1 + (int64_t)rng_below(r, 24) : 0);
    plan_set(p, "alloc_fail2", rng_coin(r, 1, 3) ? 1 + (int64_t)rng_below(r, 60) : 0);
    /* thin training part: the samples before the split point hold 0..12 bytes together, the rest is ordinary */
    if ((idx / A_N) % 8 == 3) { plan_set(p, "set_kind", 10); plan_set(p, "nb", 12 + (int64_t)rng_below(r, 100)); plan_set(p, "split1000", 100 + (int64_t)rng_below(r, 800)); plan_set(p, "thin", (int64_t)rng_below(r, 13));
        if (rng_coin(r, 1, 2)) { plan_set(p, "k", 16 + (int64_t)rng_below(r, 200)); plan_set(p, "d", rng_coin(r, 1, 2) ? 6 : 8); plan_set(p, "f", 8 + (int64_t)rng_below(r, 13)); plan_set(p, "accel", 1 + (int64_t)rng_below(r, 10)); } }
    sim_sched_plan_defaults(p, r, threads >= 2);
}

typedef struct { uint8_t* buf; size_t* sizes; unsigned nb; size_t total; } Samples;
static void make_samples(Samples* s, const Plan* p) {
    Rng r; unsigned nb = (unsigned)plan_get(p, "nb", 10), k; size_t total = (size_t)plan_get(p, "total", 10000), pos = 0; int const kind = (int)plan_get(p, "set_kind", 7);
    rng_seed(&r, (uint64_t)plan_get(p, "in_seed", 1), "samples");
    /* the legacy trainer is quadratic on copies of one sample (345 KB in 4 identical samples: 146 s, finite): keep that shape below the per-run CPU cap */
    if ((int)plan_get(p, "alg", 0) == A_LEGACY && (kind == 3 || kind == 4) && total > (48u << 10)) total = 48u << 10;
    if (kind == 0) nb = 0; else if (kind == 1) nb = 1; else if (kind == 2) { nb = 1 + (unsigned)rng_below(&r, 5); total = rng_below(&r, 40); } else if (kind == 5) total = rng_below(&r, 600);
    s->buf = (uint8_t*)sim_buf_new(total ? total : 1); s->sizes = (size_t*)malloc((nb + 1) * sizeof(size_t)); s->nb = nb; s->total = 0;
    gen_input(&r, (int)plan_get(p, "in_kind", 0), s->buf, total);
    if (kind == 4) for (k = 0; k < total; k++) s->buf[k] = (uint8_t)('a' + (s->buf[k] & 1));
    if (kind == 3 && nb) { size_t one = total / nb; if (one < 1) one = total ? 1 : 0; for (k = 0; k < nb && pos + one <= total; k++) { if (k) memcpy(s->buf + pos, s->buf, one); s->sizes[k] = one; pos += one; } s->nb = k; s->total = pos; return; }
    for (k = 0; k < nb; k++) {
        size_t left = total - pos, sz;
        if (kind == 10 && k < (unsigned)((double)nb * ((double)plan_get(p, "split1000", 0) / 1000.0))) { size_t const thin = (size_t)plan_get(p, "thin", 0); sz = (pos < thin && rng_coin(&r, 1, 3)) ? 1 + (size_t)rng_below(&r, thin - pos) : 0; if (sz > left) sz = left; }
        else if (kind == 6) sz = k == 0 ? left - (left > nb ? nb : 0) : (left ? 1 : 0);
        else if (k + 1 == nb && rng_coin(&r, 1, 2)) sz = left;
        else { size_t avg = total / nb + 1; sz = rng_coin(&r, 1, 10) ? 0 : rng_coin(&r, 1, 8) ? (size_t)rng_below(&r, 8) : (size_t)rng_below(&r, 2 * avg + 1); if (sz > left) sz = left; }
        s->sizes[k] = sz; pos += sz;
    }
    s->total = pos;
}

static size_t run_trainer(const Plan* p, int alg, void* dst, size_t cap, const Samples* s, int threads) {
    ZDICT_params_t zp; unsigned const k = (unsigned)plan_get(p, "k", 64), d = (unsigned)plan_get(p, "d", 8); int const zero = (int)plan_get(p, "zero_kd", 0);
    memset(&zp, 0, sizeof zp); zp.compressionLevel = (int)plan_get(p, "level", 0); zp.dictID = (unsigned)plan_get(p, "dict_id", 0); zp.notificationLevel = 0;
    switch (alg) {
    case A_DEFAULT: return ZDICT_trainFromBuffer(dst, cap, s->buf, s->sizes, s->nb);
    case A_COVER: case A_COVER_OPT: { ZDICT_cover_params_t c; memset(&c, 0, sizeof c); c.k = k; c.d = d; c.steps = (unsigned)plan_get(p, "steps", 0); c.nbThreads = (unsigned)threads; c.splitPoint = (double)plan_get(p, "split1000", 0) / 1000.0; c.shrinkDict = (unsigned)plan_get(p, "shrink", 0); c.shrinkDictMaxRegression = (unsigned)plan_get(p, "shrink_reg", 0); c.zParams = zp;
        if (alg == A_COVER) return ZDICT_trainFromBuffer_cover(dst, cap, s->buf, s->sizes, s->nb, c);
        if (zero) { c.k = 0; c.d = (k & 2) ? 0 : d; }
        return ZDICT_optimizeTrainFromBuffer_cover(dst, cap, s->buf, s->sizes, s->nb, &c); }
    case A_FAST: case A_FAST_OPT: { ZDICT_fastCover_params_t c; memset(&c, 0, sizeof c); c.k = k; c.d = d; c.f = (unsigned)plan_get(p, "f", 12); c.accel = (unsigned)plan_get(p, "accel", 1); c.steps = (unsigned)plan_get(p, "steps", 0); c.nbThreads = (unsigned)threads; c.splitPoint = (double)plan_get(p, "split1000", 0) / 1000.0; c.shrinkDict = (unsigned)plan_get(p, "shrink", 0); c.shrinkDictMaxRegression = (unsigned)plan_get(p, "shrink_reg", 0); c.zParams = zp;
        if (c.f > 24 && c.f <= 31) c.f = 24;   /* 2^f counters of 4 bytes: keep the legal-but-huge tables out of the sandbox */
        if (alg == A_FAST) return ZDICT_trainFromBuffer_fastCover(dst, cap, s->buf, s->sizes, s->nb, c);
        if (zero) { c.k = 0; c.d = (k & 1) ? 0 : d; }
        return ZDICT_optimizeTrainFromBuffer_fastCover(dst, cap, s->buf, s->sizes, s->nb, &c); }
    case A_LEGACY: { ZDICT_legacy_params_t l; memset(&l, 0, sizeof l); l.selectivityLevel = (unsigned)plan_get(p, "sel_div", 0); l.zParams = zp; return ZDICT_trainFromBuffer_legacy(dst, cap, s->buf, s->sizes, s->nb, l); }
    case A_FINALIZE: { size_t cs = (size_t)plan_get(p, "content_size", 0); if (cs > s->total) cs = s->total; return ZDICT_finalizeDictionary(dst, cap, s->buf + (s->total - cs), cs, s->buf, s->sizes, s->nb, zp); }
    default: { size_t cs = (size_t)plan_get(p, "content_size", 0); if (cs > s->total) cs = s->total; if (cs > cap) cs = cap;
        /* contract: content sits at the END of the buffer */
        if (cs) memcpy((uint8_t*)dst + (cap - cs), s->buf + (s->total - cs), cs);
        return ZDICT_addEntropyTablesFromBuffer(dst, cs, cap, s->buf, s->sizes, s->nb); }
    }
}

static void check_usable(const Plan* p, const uint8_t* dict, size_t n, const Samples* s, const char* what) {
    ZSTD_CDict* cd = ZSTD_createCDict(dict, n, 3); ZSTD_DDict* dd = ZSTD_createDDict(dict, n); unsigned id = ZDICT_getDictID(dict, n), k; size_t pos = 0, hs; ZSTD_CCtx* c; ZSTD_DCtx* d; size_t maxs = 0; uint8_t* cb; uint8_t* back; size_t cbcap;
    (void)p;
    if (n < 8 || !(dict[0] == 0x37 && dict[1] == 0xA4 && dict[2] == 0x30 && dict[3] == 0xEC)) sim_violation("not_a_dictionary", "%s returned %zu bytes that do not start with the dictionary magic", what, n);
    if (!cd) sim_violation("dict_not_loadable", "%s: ZSTD_createCDict rejects the %zu-byte result", what, n);
    if (!dd) sim_violation("dict_not_loadable", "%s: ZSTD_createDDict rejects the %zu-byte result", what, n);
    if (id == 0) sim_violation("dict_id_zero", "%s: dictionary ID is 0", what);
    if (ZSTD_getDictID_fromDict(dict, n) != id || ZSTD_getDictID_fromCDict(cd) != id || ZSTD_getDictID_fromDDict(dd) != id)
        sim_violation("dict_id_disagree", "%s: ZDICT_getDictID %u, fromDict %u, fromCDict %u, fromDDict %u", what, id, ZSTD_getDictID_fromDict(dict, n), ZSTD_getDictID_fromCDict(cd), ZSTD_getDictID_fromDDict(dd));
    { unsigned const want = (unsigned)plan_get(p, "dict_id", 0); int const alg = (int)plan_get(p, "alg", 0); if (want && alg != A_DEFAULT && alg != A_ADDENTROPY && id != want) sim_violation("dict_id_not_forced", "%s: dictID %u requested, dictionary carries %u", what, want, id); }
    hs = ZDICT_getDictHeaderSize(dict, n);
    if (ZDICT_isError(hs) || hs > n) sim_violation("dict_header_size", "%s: ZDICT_getDictHeaderSize -> %s / %zu of %zu", what, ZDICT_isError(hs) ? ZDICT_getErrorName(hs) : "ok", hs, n);
    for (k = 0; k < s->nb; k++) if (s->sizes[k] > maxs) maxs = s->sizes[k];
    cbcap = ZSTD_compressBound(maxs) + 64; cb = (uint8_t*)malloc(cbcap); back = (uint8_t*)malloc(maxs + 1); c = ZSTD_createCCtx(); d = ZSTD_createDCtx();
    for (k = 0; k < s->nb; k++) {
        size_t const z = s->sizes[k]; size_t r, q;
        if (k >= 40 && (k % 7)) { pos += z; continue; }   /* all of the first 40 samples, then every 7th */
        r = (k & 1) ? ZSTD_compress_usingCDict(c, cb, cbcap, s->buf + pos, z, cd) : ZSTD_compress_usingDict(c, cb, cbcap, s->buf + pos, z, dict, n, (k % 5) + 1);
        if (ZSTD_isError(r)) sim_violation("sample_compress_error", "%s: sample %u (%zu bytes) does not compress with the dictionary: %s", what, k, z, ZSTD_getErrorName(r));
        q = (k & 2) ? ZSTD_decompress_usingDDict(d, back, z, cb, r, dd) : ZSTD_decompress_usingDict(d, back, z, cb, r, dict, n);
        if (ZSTD_isError(q) || q != z || (z && memcmp(back, s->buf + pos, z))) sim_violation("sample_roundtrip", "%s: sample %u (%zu bytes) does not round-trip with the dictionary: %s", what, k, z, ZSTD_isError(q) ? ZSTD_getErrorName(q) : "content differs");
        if (ZSTD_getDictID_fromFrame(cb, r) != id) sim_violation("dict_id_disagree", "%s: frame compressed with the dictionary names ID %u, dictionary %u", what, ZSTD_getDictID_fromFrame(cb, r), id);
        pos += z;
    }
    ZSTD_freeCCtx(c); ZSTD_freeDCtx(d); free(cb); free(back); ZSTD_freeCDict(cd); ZSTD_freeDDict(dd);
    sim_probe("c18.dict_usable");
}

static void exec(const Plan* p) {
    Samples s; int const alg = (int)plan_get(p, "alg", 0), threads = (int)plan_get(p, "threads", 0); size_t const cap = (size_t)plan_get(p, "cap", 1000); long const af = (long)plan_get(p, "alloc_fail", 0), af2 = (long)plan_get(p, "alloc_fail2", 0);
    uint8_t* dst; uint8_t* dst2; size_t r, r2; const char* e;
    make_samples(&s, p);
    dst = (uint8_t*)sim_buf_new(cap ? cap : 1); memset(dst, 0x00, cap ? cap : 1);
    /* ---- the call under test: scheduler decides worker interleavings, allocator seam may fail inside ---- */
    sim_wrap_reset(); sim_wrap_arm(af, af ? af2 : 0); sim_wrap_fill(0xCD);
    r = run_trainer(p, alg, dst, cap, &s, threads);
    sim_wrap_disarm();
    sim_event("alg=%s nb=%u total=%zu cap=%zu -> %s %zu (alloc calls %ld failed %ld)", g_alg[alg], s.nb, s.total, cap, ZDICT_isError(r) ? ZDICT_getErrorName(r) : "ok", ZDICT_isError(r) ? (size_t)0 : r, sim_wrap_calls(), sim_wrap_failed());
    if (sim_sched_live_threads() != 0) sim_violation("threads_left", "%d trainer thread(s) still alive after %s returned", sim_sched_live_threads(), g_alg[alg]);
    if ((e = sim_buf_check(dst)) != NULL) sim_violation("dst_overrun", "%s wrote outside its %zu-byte buffer: %s", g_alg[alg], cap, e);
    if ((e = sim_buf_check(s.buf)) != NULL) sim_violation("samples_overrun", "%s wrote outside the samples buffer: %s", g_alg[alg], e);
    if (sim_wrap_live() != 0) sim_violation("leak", "%s returned (%s) with %ld libc allocation(s) still live", g_alg[alg], ZDICT_isError(r) ? ZDICT_getErrorName(r) : "ok", sim_wrap_live());
    if (sim_wrap_failed()) sim_fault_fired("libc_alloc_fail");
    if (threads >= 2 && (alg == A_COVER_OPT || alg == A_FAST_OPT)) sim_probe("c18.threaded_optimiser_runs");
    if (!ZDICT_isError(r)) {
        if (r > cap) sim_violation("over_capacity", "%s returned %zu > capacity %zu", g_alg[alg], r, cap);
        if (r == 0) sim_probe("c18.no_dictionary_result");
        else { check_usable(p, dst, r, &s, g_alg[alg]); sim_mark_nontrivial(); }
    } else { sim_probe("c18.error_result"); if (s.nb >= 5 || sim_wrap_failed()) sim_mark_nontrivial(); }
    /* ---- determinism: same inputs, nbThreads <= 1, no fault: identical result ---- */
    if (threads <= 1 && !sim_wrap_failed()) {
        /* the second run sees other bytes in every place the result must not depend on: the output buffer beforehand and fresh heap blocks */
        dst2 = (uint8_t*)sim_buf_new(cap ? cap : 1); memset(dst2, 0xA5, cap ? cap : 1);
        sim_wrap_arm(0, 0); sim_wrap_fill(0x5A);
        r2 = run_trainer(p, alg, dst2, cap, &s, threads);
        sim_wrap_disarm();
        if (ZDICT_isError(r) != ZDICT_isError(r2) || (!ZDICT_isError(r) && (r != r2 || (r && memcmp(dst, dst2, r)))))
            sim_violation("nondeterministic", "%s with nbThreads=%d: first run %s/%zu, second run %s/%zu%s", g_alg[alg], threads, ZDICT_isError(r) ? ZDICT_getErrorName(r) : "ok", r, ZDICT_isError(r2) ? ZDICT_getErrorName(r2) : "ok", r2, (!ZDICT_isError(r) && r == r2) ? " (bytes differ)" : "");
        if ((e = sim_buf_check(dst2)) != NULL) sim_violation("dst_overrun", "%s: %s", g_alg[alg], e);
        sim_buf_free(dst2); sim_probe("c18.determinism_checked");
    }
    sim_event_bytes("dict", dst, ZDICT_isError(r) ? 0 : r);
    sim_buf_free(dst); sim_buf_free(s.buf); free(s.sizes);
}
const Scenario scen_c18train = { "c18train", "C18", gen, exec };
