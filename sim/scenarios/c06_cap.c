/* c06_cap.c — C06: capacity discipline.
 * Destination exhaustion is a resource fault on the writer argument: every compressing / decompressing entry point is
 * run against exactly-sized, guarded destinations whose capacity the simulator sweeps (all capacities 0..bound+8 for
 * small inputs; the edges {0,1,header,result-1,result,bound-1,bound,bound+k} otherwise).  Oracles: guard zones intact on
 * both buffers, result is an error or <= capacity, capacity >= ZSTD_compressBound(n) => success for every parameter
 * vector and entry point (incl. single-pass streaming end), a failed call followed by a session reset leaves the context
 * usable, decompression with capacity >= content size succeeds; frame inspectors agree with the independent frame walker
 * and the actual decode (compressed size, decompress bound, content size, decompressed size, in-place margin). */
#include "../io/sess.h"
#include "scenarios.h"

static void gen(Plan* p, Rng* r, int tier, long idx) {
    (void)idx;
    sess_gen_input_params(p, r, tier ? (400u << 10) : (100u << 10));
    if (rng_coin(r, 1, 2)) plan_set(p, "in_size", (int64_t)rng_below(r, 300));     /* small: exhaustive capacity sweep */
    if (rng_coin(r, 1, 4)) plan_set(p, "in_kind", rng_coin(r, 1, 2) ? GEN_RANDOM : GEN_ALT);   /* bound-stressing content */
    sess_gen_cparams(p, r, GP_NOMT);
    if (rng_coin(r, 1, 4)) { plan_set(p, "dict_kind", rng_range(r, 1, 2)); plan_set(p, "dict_size", (int64_t)(8 + rng_size(r, 30 << 10))); plan_set(p, "dict_seed", (int64_t)(rng_u64(r) >> 2)); }
    plan_set(p, "entry", (int64_t)rng_below(r, 7));   /* 0 compress2 1 compressCCtx 2 usingDict 3 usingCDict 4 stream single pass 5 stable output: flush everything, then end with nothing 6 buffer-less begin / continue / end(empty) */
    plan_set(p, "cap_seed", (int64_t)(rng_u64(r) >> 2));
    plan_set(p, "nframes", rng_coin(r, 1, 3) ? rng_range(r, 2, 4) : 1);
}

typedef struct { const Plan* p; Sess s; ZSTD_CCtx* c; ZSTD_CDict* cd; int entry; long caps; } T;

static size_t compress_once(T* t, uint8_t* dst, size_t cap, const uint8_t* src, size_t n) {
    switch (t->entry) {
    case 0: return ZSTD_compress2(t->c, dst, cap, src, n);
    case 1: return ZSTD_compressCCtx(t->c, dst, cap, src, n, sess_get_cparam(t->p, "compressionLevel", 3));
    case 2: return t->s.dict ? ZSTD_compress_usingDict(t->c, dst, cap, src, n, t->s.dict, t->s.dict_size, sess_get_cparam(t->p, "compressionLevel", 3)) : ZSTD_compress2(t->c, dst, cap, src, n);
    case 3: return t->cd ? ZSTD_compress_usingCDict(t->c, dst, cap, src, n, t->cd) : ZSTD_compress2(t->c, dst, cap, src, n);
    default: { ZSTD_inBuffer in; ZSTD_outBuffer out; size_t r; in.src = src; in.size = n; in.pos = 0; out.dst = dst; out.size = cap; out.pos = 0;
        r = ZSTD_compressStream2(t->c, &out, &in, ZSTD_e_end);      /* single pass */
        if (ZSTD_isError(r)) return r;
        if (r != 0) { ZSTD_CCtx_reset(t->c, ZSTD_reset_session_only); return (size_t)-ZSTD_error_dstSize_tooSmall; }
        return out.pos; }
    case 5: { ZSTD_inBuffer in; ZSTD_outBuffer out; size_t r; in.src = src; in.size = n; in.pos = 0; out.dst = dst; out.size = cap; out.pos = 0;
        /* stable output buffer: the library writes straight into the caller's destination, epilogue included */
        ZSTD_CCtx_setParameter(t->c, ZSTD_c_stableOutBuffer, 1);
        r = ZSTD_compressStream2(t->c, &out, &in, ZSTD_e_flush);
        if (!ZSTD_isError(r) && (r != 0 || in.pos < in.size)) r = (size_t)-ZSTD_error_dstSize_tooSmall;
        if (!ZSTD_isError(r)) { r = ZSTD_compressStream2(t->c, &out, &in, ZSTD_e_end); if (!ZSTD_isError(r) && r != 0) r = (size_t)-ZSTD_error_dstSize_tooSmall; }
        if (ZSTD_isError(r)) { ZSTD_CCtx_reset(t->c, ZSTD_reset_session_only); ZSTD_CCtx_setParameter(t->c, ZSTD_c_stableOutBuffer, 0); return r; }
        ZSTD_CCtx_setParameter(t->c, ZSTD_c_stableOutBuffer, 0);
        return out.pos; }
    case 6: { size_t r, pos = 0; int const lvl = sess_get_cparam(t->p, "compressionLevel", 3);
        if (sess_get_cparam(t->p, "checksumFlag", 0)) { ZSTD_parameters zp = ZSTD_getParams(lvl, 0, t->s.dict ? t->s.dict_size : 0); zp.fParams.checksumFlag = 1; zp.fParams.contentSizeFlag = 0; r = ZSTD_compressBegin_advanced(t->c, t->s.dict, t->s.dict ? t->s.dict_size : 0, zp, ZSTD_CONTENTSIZE_UNKNOWN); }
        else r = t->s.dict ? ZSTD_compressBegin_usingDict(t->c, t->s.dict, t->s.dict_size, lvl) : ZSTD_compressBegin(t->c, lvl);
        if (ZSTD_isError(r)) return r;
        r = ZSTD_compressContinue(t->c, dst, cap, src, n); if (ZSTD_isError(r)) return r; pos = r;
        r = ZSTD_compressEnd(t->c, dst + pos, cap - pos, NULL, 0); if (ZSTD_isError(r)) return r;   /* the epilogue alone: empty last block (+ checksum) */
        return pos + r; }
    }
}
static T* g_t;
static int is_simple_entry(int e) { return e == 1 || e == 6 || (e == 2 && g_t->s.dict) || (e == 3 && g_t->cd); }   /* these ignore advanced parameters by contract (2/3 fall back to compress2 without a dictionary) */

static void try_compress_cap(T* t, size_t cap, size_t bound, size_t n) {
    uint8_t* dst = (uint8_t*)sim_buf_new(cap); uint8_t* src = (uint8_t*)sess_buf_get(0, n); size_t r; const char* e;
    if (n) memcpy(src, t->s.in, n);
    r = compress_once(t, dst, cap, src, n); t->caps++;
    if ((e = sim_buf_check(dst)) != NULL) sim_violation("dst_overrun", "compression entry %d with capacity %zu: %s", t->entry, cap, e);
    if ((e = sim_buf_check(src)) != NULL) sim_violation("src_overrun", "compression entry %d: %s", t->entry, e);
    if (!ZSTD_isError(r) && r > cap) sim_violation("capacity_exceeded", "compression entry %d returned %zu > capacity %zu", t->entry, r, cap);
    if (ZSTD_isError(r)) {
        if (cap >= bound + (t->entry >= 5 ? 16 : 0)) sim_violation("bound_insufficient", "compression entry %d fails with capacity %zu >= ZSTD_compressBound(%zu)=%zu: %s", t->entry, cap, n, bound, ZSTD_getErrorName(r));
        if (ZSTD_getErrorCode(r) != ZSTD_error_dstSize_tooSmall) sim_violation("wrong_error", "capacity %zu too small is reported as: %s", cap, ZSTD_getErrorName(r));
        ZSTD_CCtx_reset(t->c, ZSTD_reset_session_only);
        sim_probe("c06.compress_too_small");
    } else {
        /* what was produced must be a correct frame */
        ZSTD_DCtx* d = ZSTD_createDCtx(); uint8_t* back = (uint8_t*)malloc(n + 1); size_t q;
        if (sess_get_cparam(t->p, "format", 0) == 1 && !is_simple_entry(t->entry)) ZSTD_DCtx_setParameter(d, ZSTD_d_format, ZSTD_f_zstd1_magicless);
        if (t->s.dict && (t->entry == 0 || t->entry == 2 || t->entry == 3 || t->entry == 4 || t->entry == 5 || t->entry == 6)) ZSTD_DCtx_loadDictionary(d, t->s.dict, t->s.dict_size);
        ZSTD_DCtx_setParameter(d, ZSTD_d_windowLogMax, 31);
        q = ZSTD_decompressDCtx(d, back, n, dst, r);
        if (ZSTD_isError(q) || q != n || (n && memcmp(back, t->s.in, n))) sim_violation("roundtrip_error", "output produced with capacity %zu does not round-trip: %s", cap, ZSTD_isError(q) ? ZSTD_getErrorName(q) : "mismatch");
        ZSTD_freeDCtx(d); free(back);
        sim_probe("c06.compress_ok");
    }
    sim_buf_free(dst);
}

static void exec(const Plan* p) {
    T t; size_t n, bound, csize; Rng rc; uint8_t* full; size_t k; const char* e; int nframes = (int)plan_get(p, "nframes", 1);
    memset(&t, 0, sizeof t); t.p = p; g_t = &t; sess_init(&t.s); sess_make_input(&t.s, p); sess_make_dict(&t.s, p); t.entry = (int)plan_get(p, "entry", 0) % 7;
    n = t.s.in_size; bound = ZSTD_compressBound(n); rng_seed(&rc, (uint64_t)plan_get(p, "cap_seed", 1), "caps");
    t.c = ZSTD_createCCtx_advanced(sess_cmem());
    sess_apply_cparams(t.c, p); ZSTD_CCtx_setParameter(t.c, ZSTD_c_nbWorkers, 0);
    if (t.s.dict && (t.entry == 0 || t.entry == 4 || t.entry == 5)) ZSTD_CCtx_loadDictionary(t.c, t.s.dict, t.s.dict_size);
    if (t.s.dict && t.entry == 3) t.cd = ZSTD_createCDict(t.s.dict, t.s.dict_size, sess_get_cparam(p, "compressionLevel", 3));
    /* reference result with ample room */
    full = (uint8_t*)malloc(bound + 64); csize = compress_once(&t, full, bound + 64, t.s.in, n);
    if (ZSTD_isError(csize)) sim_violation("bound_insufficient", "entry %d fails with capacity bound+64: %s", t.entry, ZSTD_getErrorName(csize));
    if (csize > bound) sim_violation("bound_exceeded", "entry %d produced %zu bytes > ZSTD_compressBound(%zu) = %zu", t.entry, csize, n, bound);
    /* (a) compression capacity sweep */
    if (n <= 300) { for (k = 0; k <= bound + 8; k++) try_compress_cap(&t, k, bound, n); sim_probe("c06.exhaustive_capacity_sweeps"); }
    else { size_t caps[16]; int nc = 0, i; caps[nc++] = 0; caps[nc++] = 1; caps[nc++] = 5; caps[nc++] = 12; caps[nc++] = csize > 0 ? csize - 1 : 0; caps[nc++] = csize; caps[nc++] = csize + 1; caps[nc++] = bound - 1; caps[nc++] = bound; caps[nc++] = bound + 1 + rng_below(&rc, 100);
        for (i = 0; i < 5; i++) caps[nc++] = rng_below(&rc, bound + 1);
        for (i = 0; i < nc; i++) try_compress_cap(&t, caps[i], bound, n); }
    /* (b) decompression capacity sweep on the reference frame */
    { ZSTD_DCtx* d = ZSTD_createDCtx_advanced(sess_cmem()); size_t lim = n <= 300 ? n + 8 : 0; size_t caps[12]; int nc = 0, i;
      if (sess_get_cparam(p, "format", 0) == 1 && !is_simple_entry(t.entry)) ZSTD_DCtx_setParameter(d, ZSTD_d_format, ZSTD_f_zstd1_magicless);
      if (t.s.dict) ZSTD_DCtx_loadDictionary(d, t.s.dict, t.s.dict_size);
      ZSTD_DCtx_setParameter(d, ZSTD_d_windowLogMax, 31);
      if (!lim) { caps[nc++] = 0; caps[nc++] = 1; caps[nc++] = n / 2; caps[nc++] = n - 1; caps[nc++] = n; caps[nc++] = n + 1; caps[nc++] = rng_below(&rc, n); caps[nc++] = n + rng_below(&rc, 5000); }
      for (k = 0; lim ? k <= lim : k < (size_t)nc; k++) {
          size_t cap = lim ? k : caps[k]; uint8_t* dst = (uint8_t*)sim_buf_new(cap); uint8_t* src = (uint8_t*)sess_buf_get(2, csize); size_t r;
          memcpy(src, full, csize); r = ZSTD_decompressDCtx(d, dst, cap, src, csize); t.caps++;
          if ((e = sim_buf_check(dst)) != NULL) sim_violation("dst_overrun", "decompression with capacity %zu: %s", cap, e);
          if ((e = sim_buf_check(src)) != NULL) sim_violation("src_overrun", "decompression: %s", e);
          if (!ZSTD_isError(r) && r > cap) sim_violation("capacity_exceeded", "decompression returned %zu > capacity %zu", r, cap);
          if (cap >= n && (ZSTD_isError(r) || r != n || (n && memcmp(dst, t.s.in, n)))) sim_violation("decompress_cap_sufficient", "decompression with capacity %zu >= content %zu fails: %s", cap, n, ZSTD_isError(r) ? ZSTD_getErrorName(r) : "mismatch");
          if (cap < n && !ZSTD_isError(r)) sim_violation("decompress_short_accepted", "decompression into %zu bytes of a %zu-byte content reports success", cap, n);
          sim_buf_free(dst);
      }
      ZSTD_freeDCtx(d); }
    /* (c) inspectors over a sequence of frames (+ a skippable frame) */
    if (sess_get_cparam(p, "format", 0) != 1 || is_simple_entry(t.entry)) {
        uint8_t* seq = (uint8_t*)malloc((csize + 32) * (size_t)nframes + 64); size_t sl = 0; int f; size_t ip = 0; unsigned long long total = 0; int all_known = 1;
        for (f = 0; f < nframes; f++) { memcpy(seq + sl, full, csize); sl += csize; if (f == 0 && nframes > 1) { uint8_t sk[12] = { 0x5A, 0x2A, 0x4D, 0x18, 4, 0, 0, 0, 9, 9, 9, 9 }; memcpy(seq + sl, sk, 12); sl += 12; } }
        while (ip < sl) {
            FwFrame fw; size_t fcs; unsigned long long gcs;
            if (fw_parse(seq + ip, sl - ip, 0, &fw) != 0) sim_violation("conf_framing", "frame sequence not walkable at %zu", ip);
            fcs = ZSTD_findFrameCompressedSize(seq + ip, sl - ip);
            if (ZSTD_isError(fcs) || fcs != fw.total_size) sim_violation("inspector_frame_size", "findFrameCompressedSize = %zu (%s), frame walker says %zu", fcs, ZSTD_isError(fcs) ? ZSTD_getErrorName(fcs) : "ok", fw.total_size);
            gcs = ZSTD_getFrameContentSize(seq + ip, sl - ip);
            if (fw.kind == 0) { if (fw.has_fcs) { if (gcs != n) sim_violation("inspector_content_size", "getFrameContentSize = %llu, content is %zu", gcs, n); } else { if (gcs != ZSTD_CONTENTSIZE_UNKNOWN) sim_violation("inspector_content_size", "getFrameContentSize = %llu for a frame without the field", gcs); all_known = 0; } total += n; }
            { ZSTD_DCtx* d = ZSTD_createDCtx(); ZSTD_inBuffer in; ZSTD_outBuffer out; uint8_t* o = (uint8_t*)malloc(n + 64); size_t r = 1; long g = 0; if (t.s.dict) ZSTD_DCtx_loadDictionary(d, t.s.dict, t.s.dict_size); ZSTD_DCtx_setParameter(d, ZSTD_d_windowLogMax, 31);
              in.src = seq + ip; in.size = sl - ip; in.pos = 0; out.dst = o; out.size = n + 64; out.pos = 0;
              while (r != 0 && g++ < 100000) { r = ZSTD_decompressStream(d, &out, &in); if (ZSTD_isError(r)) sim_violation("roundtrip_error", "stream decode of frame at %zu: %s", ip, ZSTD_getErrorName(r)); }
              if (in.pos != fw.total_size) sim_violation("inspector_frame_size", "decompressStream consumed %zu bytes for a frame of %zu", in.pos, fw.total_size);
              ZSTD_freeDCtx(d); free(o); }
            ip += fw.total_size; fw_free(&fw);
        }
        { unsigned long long const db = ZSTD_decompressBound(seq, sl); unsigned long long const fds = ZSTD_findDecompressedSize(seq, sl);
          if (db == ZSTD_CONTENTSIZE_ERROR || db < total) sim_violation("inspector_decompress_bound", "decompressBound = %llu < actual %llu", db, total);
          if (all_known ? fds != total : fds != ZSTD_CONTENTSIZE_UNKNOWN) sim_violation("inspector_decompressed_size", "findDecompressedSize = %llu, actual %llu (all sizes known: %d)", fds, total, all_known); }
        /* in-place with the advertised margin */
        { size_t const margin = ZSTD_decompressionMargin(seq, sl); if (ZSTD_isError(margin)) sim_violation("inspector_margin", "decompressionMargin fails on a valid sequence: %s", ZSTD_getErrorName(margin));
          { size_t tot = (size_t)total + margin; uint8_t* buf; size_t r; ZSTD_DCtx* d = ZSTD_createDCtx(); if (tot < sl) tot = sl; buf = (uint8_t*)sim_buf_new(tot); memcpy(buf + tot - sl, seq, sl); if (t.s.dict) ZSTD_DCtx_loadDictionary(d, t.s.dict, t.s.dict_size); ZSTD_DCtx_setParameter(d, ZSTD_d_windowLogMax, 31);
            r = ZSTD_decompressDCtx(d, buf, tot, buf + tot - sl, sl);
            if ((e = sim_buf_check(buf)) != NULL) sim_violation("dst_overrun", "in-place decode: %s", e);
            if (ZSTD_isError(r) || r != total) sim_violation("inspector_margin", "in-place decoding with the advertised margin %zu fails: %s", margin, ZSTD_isError(r) ? ZSTD_getErrorName(r) : "size");
            { int f2; for (f2 = 0; f2 < nframes; f2++) if (n && memcmp(buf + (size_t)f2 * n, t.s.in, n)) sim_violation("inspector_margin", "in-place decoding produced wrong bytes in frame %d", f2); }
            sim_buf_free(buf); ZSTD_freeDCtx(d); } }
        /* the same with a small last frame (its own, smaller block-size limit) after the sequence: the margin must cover the largest block of ANY frame */
        if (n >= 1) { size_t const tn = n < 64 ? n : 40 + n % 24; uint8_t tiny[256]; size_t const tz = ZSTD_compress(tiny, sizeof tiny, t.s.in, tn, 1);
          if (!ZSTD_isError(tz) && !t.s.dict) { uint8_t* seq2 = (uint8_t*)malloc(sl + tz); size_t const sl2 = sl + tz; size_t margin, tot; uint8_t* buf; size_t r; ZSTD_DCtx* d = ZSTD_createDCtx();
            memcpy(seq2, seq, sl); memcpy(seq2 + sl, tiny, tz); margin = ZSTD_decompressionMargin(seq2, sl2);
            if (ZSTD_isError(margin)) sim_violation("inspector_margin", "decompressionMargin fails on a valid sequence ending in a small frame: %s", ZSTD_getErrorName(margin));
            tot = (size_t)total + tn + margin; if (tot < sl2) tot = sl2; buf = (uint8_t*)sim_buf_new(tot); memcpy(buf + tot - sl2, seq2, sl2); ZSTD_DCtx_setParameter(d, ZSTD_d_windowLogMax, 31);
            r = ZSTD_decompressDCtx(d, buf, tot, buf + tot - sl2, sl2);
            if ((e = sim_buf_check(buf)) != NULL) sim_violation("dst_overrun", "in-place decode: %s", e);
            if (ZSTD_isError(r) || r != total + tn) sim_violation("inspector_margin", "in-place decoding of a sequence ending in a small frame, with the advertised margin %zu, fails: %s", margin, ZSTD_isError(r) ? ZSTD_getErrorName(r) : "size");
            if (memcmp(buf + (size_t)total, t.s.in, tn) || (n && memcmp(buf, t.s.in, n))) sim_violation("inspector_margin", "in-place decoding of a sequence ending in a small frame produced wrong bytes");
            sim_buf_free(buf); ZSTD_freeDCtx(d); free(seq2); sim_probe("c06.margin_small_last_frame"); } }
        free(seq); sim_probe("c06.inspector_sequences");
    }
    sim_probe_n("c06.capacities_tried", t.caps);
    if (t.caps > 10) sim_mark_nontrivial();
    free(full); ZSTD_freeCCtx(t.c); ZSTD_freeCDict(t.cd); sess_buf_cache_drop();
    if (sim_alloc_live_blocks() != 0) sim_violation("leak", "%ld allocator block(s) live at end", sim_alloc_live_blocks());
    if ((e = sim_alloc_check()) != NULL) sim_violation("heap_corruption", "%s", e);
    sess_free(&t.s);
}
const Scenario scen_c06cap = { "c06cap", "C06", gen, exec };
