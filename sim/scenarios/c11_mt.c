/* c11_mt.c — C11 (and the worker-count/schedule axes of C07): multithreaded compression under simsched.
 * System: caller thread + nbWorkers pool threads running the real zstdmt_compress.c / pool.c; every lock, wait,
 * signal, thread creation is decided by the seeded scheduler.  1–3 frames through one CCtx with per-frame worker
 * counts (pool resize), dictionaries / prefixes / CDict, mid-frame level changes, abandoned frames + reset,
 * free in mid-frame.  Fault batch: spurious wake-ups, pthread_create / init failures, allocation failure.
 * Oracles: scheduler monitors (deadlock, livelock, misuse, thread leak), per-call progress, round trip through
 * the library decoder, conformance through the independent decoder, no allocator leak; "c07mt" additionally
 * demands byte-identical output from a second context with another worker count under another schedule. */
#include "../io/sess.h"
#include "scenarios.h"

static void gen_common(Plan* p, Rng* r, int tier, long idx, int for_c07) {
    int nframes = rng_coin(r, 1, 3) ? (int)rng_range(r, 2, 3) : 1, f;
    int faults = !for_c07 && (idx % 5) == 4;
    size_t maxsz = tier ? (6u << 20) : (3u << 20); char k[32];
    plan_set(p, "nframes", nframes);
    plan_set(p, "in_kind", (int64_t)rng_below(r, GEN_NKINDS));
    plan_set(p, "in_seed", (int64_t)(rng_u64(r) >> 2));
    { size_t big = 0;
      for (f = 0; f < nframes; f++) {
        size_t sz = rng_coin(r, 1, 4) ? rng_size(r, 300 << 10) : (size_t)rng_range(r, 600 << 10, (int64_t)maxsz);
        if (f > 0 && rng_coin(r, 1, 2)) sz = rng_size(r, 700 << 10);
        snprintf(k, sizeof k, "f%d_size", f); plan_set(p, k, (int64_t)sz);
        snprintf(k, sizeof k, "f%d_workers", f); plan_set(p, k, rng_range(r, 1, 4));
        if (sz > big) big = sz;
      }
      plan_set(p, "in_size", (int64_t)big); }
    sess_gen_cparams(p, r, GP_FORCE_MT);
    { int lvl = sess_get_cparam(p, "compressionLevel", 3); if (lvl > 6 && plan_get(p, "in_size", 0) > (512 << 10)) plan_set(p, "c.compressionLevel", 1 + (lvl % 5)); }
    if (sess_get_cparam(p, "strategy", 0) > 5 && plan_get(p, "in_size", 0) > (512 << 10)) plan_set(p, "c.strategy", 1 + (int64_t)rng_below(r, 5));
    if (rng_coin(r, 1, 4)) { plan_set(p, "dict_kind", rng_range(r, 1, 2)); plan_set(p, "dict_size", (int64_t)(8 + rng_size(r, 64 << 10))); plan_set(p, "dict_seed", (int64_t)(rng_u64(r) >> 2)); plan_set(p, "dict_mode", rng_range(r, 1, 3)); }
    /* MT-friendly call history: a few explicit ops, bounded repeats */
    { int nops = (int)rng_range(r, 0, 8), i;
      for (i = 0; i < nops; i++) {
        size_t in_len = rng_coin(r, 1, 3) ? rng_below(r, 70000) : rng_coin(r, 1, 2) ? (size_t)rng_range(r, 100 << 10, 1 << 20) : rng_chunk(r, 1 << 22, 128 << 10);
        size_t out_cap = rng_coin(r, 1, 4) ? rng_below(r, 40) : rng_coin(r, 1, 2) ? rng_below(r, 9000) : (size_t)rng_range(r, 10000, 1 << 20);
        int x = (int)rng_below(r, 100); int dir = for_c07 ? 0 : x < 18 ? 1 : x < 22 ? 2 : 0;   /* c07: how much a non-blocking call consumes is schedule-dependent, so flush/end positions would be too */
        int rep = out_cap < 64 ? (int)rng_range(r, 1, 120) : (int)rng_range(r, 1, 12);
        plan_add(p, "cs", 4, (int64_t)in_len, (int64_t)out_cap, (int64_t)dir, (int64_t)rep);
        if (!for_c07 && rng_coin(r, 1, 10)) plan_add(p, "clevel", 1, rng_range(r, -3, 7));
      }
      plan_set(p, "fin_in", rng_coin(r, 1, 2) ? (int64_t)(8 << 20) : rng_range(r, 30000, 1 << 20));
      plan_set(p, "fin_out", rng_coin(r, 1, 6) ? rng_range(r, 2000, 9000) : rng_range(r, 9000, 1 << 20)); }
    /* family "ring wrap": long-distance matching whose window still covers the start of the round input buffer when the producer wraps
     * around it (window >= nbWorkers * jobSize, input beyond window + 3 jobs): the caller's copy of the overlap to the ring start must wait
     * for lagging LDM steps.  One run in 16. */
    if (!for_c07 && (idx % 16) == 7) {
        int const w = (int)rng_range(r, 3, 4);
        plan_set(p, "nframes", 1); plan_set(p, "f0_workers", w); plan_set(p, "f0_size", (int64_t)((w == 3 ? (3600u << 10) : (4100u << 10)) + rng_below(r, 900u << 10))); plan_set(p, "in_size", plan_get(p, "f0_size", 0));
        plan_set(p, "c.nbWorkers", w); plan_set(p, "c.enableLongDistanceMatching", 1); plan_set(p, "c.windowLog", 21); plan_set(p, "c.jobSize", 512 << 10); plan_set(p, "c.compressionLevel", rng_range(r, 1, 3));
        plan_set(p, "c.strategy", 0); plan_set(p, "c.overlapLog", rng_coin(r, 1, 2) ? 0 : rng_range(r, 5, 9)); plan_set(p, "c.rsyncable", 0); plan_set(p, "c.ldmHashLog", 0); plan_set(p, "c.ldmMinMatch", 0); plan_set(p, "c.ldmHashRateLog", 0); plan_set(p, "c.ldmBucketSizeLog", 0);
        plan_set(p, "c.targetCBlockSize", 0); plan_set(p, "c.format", 0); plan_set(p, "dict_kind", 0);
        plan_set(p, "in_kind", rng_coin(r, 1, 2) ? GEN_LONGREP : GEN_MIXED);
        plan_set(p, "fin_in", (int64_t)(8 << 20)); plan_set(p, "fin_out", (int64_t)(1 << 20));
        plan_set(p, "stall_site", 1); plan_set(p, "stall_nth", rng_range(r, 3, 6)); plan_set(p, "stall_len", rng_range(r, 5000, 40000));
    } else if (!for_c07 && (idx % 16) == 11) {
        /* family "big overlap": the prefix (overlap) of a job is as large as the job itself, jobs have several chunks, a mid-frame flush
         * de-aligns the round buffer: the producer may only recycle a region once the oldest running job is done with its PREFIX too */
        int const w = (int)rng_range(r, 2, 3); int k2;
        /* round buffer = (workers + 3) sections of 1 MiB: the input must go well beyond it for the producer to wrap onto live jobs */
        plan_set(p, "nframes", 1); plan_set(p, "f0_workers", w); plan_set(p, "f0_size", (int64_t)(((size_t)(w + 5) << 20) + rng_below(r, 2u << 20))); plan_set(p, "in_size", plan_get(p, "f0_size", 0));
        plan_set(p, "c.nbWorkers", w); plan_set(p, "c.enableLongDistanceMatching", 2); plan_set(p, "c.windowLog", rng_range(r, 21, 22)); plan_set(p, "c.overlapLog", rng_range(r, 8, 9)); plan_set(p, "c.jobSize", (int64_t)(1u << 20));
        plan_set(p, "c.compressionLevel", rng_range(r, 1, 3)); plan_set(p, "c.strategy", 0); plan_set(p, "c.rsyncable", 0); plan_set(p, "c.targetCBlockSize", 0); plan_set(p, "c.format", 0); plan_set(p, "dict_kind", 0); plan_set(p, "c.checksumFlag", 1);
        plan_set(p, "in_kind", rng_coin(r, 1, 2) ? GEN_LONGREP : GEN_MIXED);
        for (k2 = 0; k2 < 2; k2++) plan_add(p, "cs", 4, (int64_t)(100000 + rng_below(r, 1800000)), (int64_t)(1 << 20), (int64_t)1 /* flush */, (int64_t)1);
        plan_set(p, "fin_in", (int64_t)(16 << 20)); plan_set(p, "fin_out", (int64_t)(1 << 20));
        plan_set(p, "stall_site", 3); plan_set(p, "stall_nth", rng_range(r, 3, 4 + w)); plan_set(p, "stall_len", rng_range(r, 20000, 80000));
    } else if (!for_c07 && rng_coin(r, 1, 5)) { plan_set(p, "stall_site", rng_range(r, 1, 3)); plan_set(p, "stall_nth", rng_range(r, 1, 12)); plan_set(p, "stall_len", rng_range(r, 300, 20000)); }   /* slow-node fault: a worker is descheduled right after taking a job / right after its serial step */
    if (!for_c07 && rng_coin(r, 1, 7)) { plan_set(p, "abort_frame", (int64_t)rng_below(r, (uint64_t)nframes)); plan_set(p, "abort_after", rng_range(r, 1, 40)); plan_set(p, "abort_free", rng_coin(r, 1, 3)); }
    sim_sched_plan_defaults(p, r, faults);
    if (faults && rng_coin(r, 1, 2)) plan_set(p, "alloc_fail", rng_range(r, 1, 60));
    plan_set(p, "sched_step_cap", 3000000);
    if (for_c07) { plan_set(p, "ref_workers", rng_range(r, 1, 4)); }
}
static void gen11(Plan* p, Rng* r, int tier, long idx) { gen_common(p, r, tier, idx, 0); }
static void gen07(Plan* p, Rng* r, int tier, long idx) { gen_common(p, r, tier, idx, 1); }

typedef struct { ZSTD_CDict* cdict; int dict_mode; uint32_t dict_id; int raw; uint8_t* dict; size_t dict_size; } DictCtx;
/* one dictionary per run, shared by every frame and by the reference context */
static void share_dict(Sess* s, const Plan* p, DictCtx* dc) {
    if (!dc->dict && plan_get(p, "dict_kind", 0)) { sess_make_dict(s, p); dc->dict = s->dict; dc->dict_size = s->dict_size; s->dict = NULL; s->dict_size = 0; }
    if (dc->dict) { s->dict = (uint8_t*)malloc(dc->dict_size); memcpy(s->dict, dc->dict, dc->dict_size); s->dict_size = dc->dict_size; s->dict_raw = dc->dict_mode == 2; }
}

static size_t setup_frame(ZSTD_CCtx* c, const Plan* p, Sess* s, DictCtx* dc, int workers) {
    size_t r;
    ZSTD_CCtx_reset(c, ZSTD_reset_parameters);   /* frame parameters are (re)applied for every frame */
    sess_apply_cparams(c, p);
    r = ZSTD_CCtx_setParameter(c, ZSTD_c_nbWorkers, workers);
    if (ZSTD_isError(r)) return r;
    if (s->dict && dc->dict_mode == 1) r = ZSTD_CCtx_loadDictionary(c, s->dict, s->dict_size);
    else if (s->dict && dc->dict_mode == 2) r = ZSTD_CCtx_refPrefix(c, s->dict, s->dict_size);
    else if (s->dict && dc->dict_mode == 3) { if (!dc->cdict) dc->cdict = ZSTD_createCDict_advanced(s->dict, s->dict_size, ZSTD_dlm_byCopy, ZSTD_dct_auto, ZSTD_getCParams(sess_get_cparam(p, "compressionLevel", 3), 0, s->dict_size), sess_cmem()); if (!dc->cdict) return (size_t)-ZSTD_error_memory_allocation; r = ZSTD_CCtx_refCDict(c, dc->cdict); }
    else r = 0;
    return r;
}
static void make_frame_input(Sess* s, const Plan* p, int f) {
    char k[32]; Rng r; size_t n;
    snprintf(k, sizeof k, "f%d_size", f); n = (size_t)plan_get(p, k, 1000);
    if (n > (16u << 20)) n = 16u << 20;
    rng_seed(&r, (uint64_t)plan_get(p, "in_seed", 1) + (uint64_t)f * 7919, "input");
    s->in = (uint8_t*)malloc(n ? n : 1); s->in_size = n;
    gen_input(&r, (int)plan_get(p, "in_kind", 0) + f, s->in, n);
}

static void exec_common(const Plan* p, int for_c07) {
    int nframes = (int)plan_get(p, "nframes", 1), f; DictCtx dc; ZSTD_CCtx* c; ZSTD_CCtx* ref = NULL; const char* e;
    int const abort_frame = (int)plan_get(p, "abort_frame", -1); long const abort_after = (long)plan_get(p, "abort_after", 0); int const abort_free = (int)plan_get(p, "abort_free", 0);
    long const alloc_fail = (long)plan_get(p, "alloc_fail", 0); int faults_on = alloc_fail || plan_get(p, "sched_fail_create", 0) || plan_get(p, "sched_fail_init", 0);
    int freed = 0; long total_jobs = 0;
    memset(&dc, 0, sizeof dc); dc.dict_mode = (int)plan_get(p, "dict_mode", 0);
    if (nframes < 1) nframes = 1; if (nframes > 4) nframes = 4;
    if (alloc_fail) sim_alloc_fail_at(alloc_fail, 0);
    if (plan_get(p, "stall_site", 0)) sim_hook_set_stall((int)plan_get(p, "stall_site", 0), (long)plan_get(p, "stall_nth", 1), (long)plan_get(p, "stall_len", 1000));
    c = ZSTD_createCCtx_advanced(sess_cmem());
    if (for_c07) ref = ZSTD_createCCtx_advanced(sess_cmem());
    if (!c || (for_c07 && !ref)) { if (!faults_on) sim_violation("create_failed", "ZSTD_createCCtx_advanced returned NULL without an injected fault"); ZSTD_freeCCtx(c); ZSTD_freeCCtx(ref); goto leakcheck; }
    for (f = 0; f < nframes && !freed; f++) {
        Sess s; char k[32]; int workers; size_t r; int aborted = 0;
        sess_init(&s);
        make_frame_input(&s, p, f);
        share_dict(&s, p, &dc);
        s.magicless = sess_get_cparam(p, "format", 0) == 1;
        snprintf(k, sizeof k, "f%d_workers", f); workers = (int)plan_get(p, k, 2); if (workers < 1) workers = 1; if (workers > 6) workers = 6;
        if (f == abort_frame && abort_after > 0) s.abort_after_calls = abort_after;
        r = setup_frame(c, p, &s, &dc, workers);
        if (!ZSTD_isError(r)) r = sess_run_chist(&s, p, c);
        sim_event("frame %d workers=%d in=%zu -> wire=%zu r=%zu", f, workers, s.in_size, s.wire_size, ZSTD_isError(r) ? r : 0);
        if (r == SESS_ABORTED) {
            aborted = 1; sim_probe("mt.frame_abandoned");
            if (abort_free) { ZSTD_freeCCtx(c); c = NULL; freed = 1; sim_probe("mt.free_midframe"); }
            else ZSTD_CCtx_reset(c, ZSTD_reset_session_only);
        } else if (ZSTD_isError(r)) {
            if (!faults_on) sim_violation("mt_error", "frame %d: compression failed without an injected fault: %s", f, ZSTD_getErrorName(r));
            sim_probe("mt.error_after_fault");
            /* after a failed operation a session reset must make the context usable again (checked by the next frame / the recovery frame) */
            ZSTD_CCtx_reset(c, ZSTD_reset_session_only);
            sim_alloc_fail_at(0, 0);
            if (f == nframes - 1) {   /* recovery: the same operation, faults off */
                Sess s2; sess_init(&s2); make_frame_input(&s2, p, f); share_dict(&s2, p, &dc); s2.magicless = s.magicless;
                r = setup_frame(c, p, &s2, &dc, workers);
                if (!ZSTD_isError(r)) r = sess_run_chist(&s2, p, c);
                if (ZSTD_isError(r) && !(plan_get(p, "sched_fail_create", 0) || plan_get(p, "sched_fail_init", 0)))
                    sim_violation("mt_not_reusable", "after an injected failure and a session reset, the same compression failed again: %s", ZSTD_getErrorName(r));
                if (!ZSTD_isError(r)) { sess_check_lib_roundtrip(s2.wire, s2.wire_size, s2.in, s2.in_size, s2.dict, s2.dict_size, s2.dict_raw, s2.magicless); sim_probe("mt.recovered_after_fault"); }
                sess_free(&s2);
            }
        } else {
            ZSTD_frameProgression const fp = ZSTD_getFrameProgression(c);
            total_jobs += fp.currentJobID;
            if (s.in_pos != s.in_size) sim_violation("mt_incomplete", "frame %d: stream finished but only %zu of %zu input bytes consumed", f, s.in_pos, s.in_size);
            sess_check_lib_roundtrip(s.wire, s.wire_size, s.in, s.in_size, s.dict, s.dict_size, s.dict_raw, s.magicless);
            sess_check_conformance(s.wire, s.wire_size, s.in, s.in_size, s.dict, s.dict_size, s.dict_raw, s.magicless, 0, 0, p);
            sim_event_bytes("wire", s.wire, s.wire_size);
            if (for_c07) {
                /* same call sequence on another context with another worker count: other schedule by construction */
                Sess t; size_t r2; int const rw = (int)plan_get(p, "ref_workers", 1);
                sess_init(&t); make_frame_input(&t, p, f); share_dict(&t, p, &dc); t.magicless = s.magicless;
                r2 = setup_frame(ref, p, &t, &dc, rw < 1 ? 1 : rw > 6 ? 6 : rw);
                if (!ZSTD_isError(r2)) r2 = sess_run_chist(&t, p, ref);
                if (ZSTD_isError(r2)) sim_violation("mt_error", "reference compression failed: %s", ZSTD_getErrorName(r2));
                if (t.wire_size != s.wire_size || memcmp(t.wire, s.wire, s.wire_size))
                    sim_violation("output_depends_on_workers_or_schedule", "frame %d: %d workers -> %zu bytes, %d workers (other schedule) -> %zu bytes, or content differs", f, workers, s.wire_size, rw, t.wire_size);
                sim_probe("c07.mt_pairs_equal");
                sess_free(&t);
            }
        }
        (void)aborted;
        sess_free(&s);
    }
    sim_alloc_fail_at(0, 0);
    if (total_jobs >= 2) sim_mark_nontrivial();
    sim_probe_n("mt.jobs", total_jobs);
    if (c) ZSTD_freeCCtx(c);
    if (ref) ZSTD_freeCCtx(ref);
    if (dc.cdict) ZSTD_freeCDict(dc.cdict);
    free(dc.dict); dc.dict = NULL;
leakcheck:
    if (sim_sched_live_threads() != 0) sim_violation("thread_leak", "%d worker thread(s) alive after ZSTD_freeCCtx", sim_sched_live_threads());
    if (sim_alloc_live_blocks() != 0) { char b[200]; sim_alloc_describe_live(b, sizeof b); sim_violation("leak", "%ld block(s) not returned to the custom allocator after free: %s", sim_alloc_live_blocks(), b); }
    if ((e = sim_alloc_check()) != NULL) sim_violation("heap_corruption", "%s", e);
}
static void exec11(const Plan* p) { exec_common(p, 0); }
static void exec07(const Plan* p) { exec_common(p, 1); }

const Scenario scen_c11mt = { "c11mt", "C11", gen11, exec11 };
const Scenario scen_c07mt = { "c07mt", "C07", gen07, exec07 };
