/* c07_pure.c — C07: compressed output is a pure function of (input, parameters, dictionary, logical calls).
 * A run builds PAIRS of executions of the same logical call sequence — same input bytes cut at the same places, same
 * directives, same parameters and dictionary — that differ in exactly one nuisance axis:
 *   H  prior history of the context: earlier frames with other parameters / inputs, an abandoned frame, a failed call
 *      (destination too small, pledged-size lie, injected allocation failure) followed by a reset, an index jump
 *   A  memory: fresh heap context vs caller-provided static memory, allocator placement, source alignment,
 *      contiguous vs scattered source slices
 *   O  the sizes of the output buffers used to drain each logical call
 * (worker count and schedule: scenario c07mt).  Oracle: byte-identical output, frame by frame.
 * Known finding KF-1: with axis O the stream-end shortcut (direct compression into the caller's buffer when the end
 * call offers at least compressBound bytes) changes the bytes; frames whose two executions took different shortcut
 * decisions (probe ZSTD_VP_cstream_endShortcut) are reported as that finding, every other difference is a violation. */
#include "../io/sess.h"
#include "scenarios.h"
#include "zstd_verif.h"

#define MAXF 64
typedef struct { uint8_t* w; size_t n, cap; size_t fstart[MAXF + 1]; size_t shortcut[MAXF]; /* 0 = none, else 1 + number of trailing input bytes the end shortcut compressed directly */ size_t frame_in; int nframes; size_t err; int skipped; } Exec;
typedef struct { int out_style; uint64_t out_seed; int src_align; int scattered; int oneshot_dst_off; } Knobs;

static void ex_append(Exec* e, const void* p, size_t n) { if (e->n + n > e->cap) { e->cap = (e->n + n) * 2 + 1024; e->w = (uint8_t*)realloc(e->w, e->cap); } if (n) memcpy(e->w + e->n, p, n); e->n += n; }
static size_t next_cap(Rng* r, int style, size_t bound) {
    switch (style) { case 0: return bound + 64; case 1: return 1 + rng_below(r, 32); case 2: return 1 + rng_chunk(r, 1 << 18, 1 << 12);
        case 3: return rng_coin(r, 1, 2) ? 1 + rng_below(r, 9) : bound + 1; default: return bound > 8 ? bound - 1 - rng_below(r, bound / 2) : 1 + rng_below(r, 8); }
}
/* run the plan's logical ops ("lop slice_len directive") on cctx */
static void run_logical(const Plan* p, ZSTD_CCtx* c, const uint8_t* in, size_t in_size, const Knobs* k, Exec* e) {
    size_t pos = 0; int i; Rng ro; int last_was_end = 0; uint8_t* scratch = (uint8_t*)malloc(in_size + 64);
    rng_seed(&ro, k->out_seed, "outcaps");
    e->fstart[0] = 0;
    for (i = 0; i <= p->nops; i++) {
        size_t slice; int dir; const uint8_t* src; ZSTD_inBuffer ib; size_t r = 1; long guard = 0;
        if (i < p->nops) { const PlanOp* o = &p->ops[i]; if (strcmp(o->kind, "lop")) continue; slice = o->a[0] < 0 ? 0 : (size_t)o->a[0]; dir = (int)o->a[1]; if (dir < 0 || dir > 2) dir = 0; }
        else { slice = in_size - pos; dir = 2; if (pos == in_size && last_was_end && e->nframes > 0) break; }
        if (slice > in_size - pos) slice = in_size - pos;
        if (k->scattered || k->src_align) { src = scratch + (k->src_align & 15); memcpy((void*)src, in + pos, slice); } else src = in + pos;
        ib.src = src; ib.size = slice; ib.pos = 0;
        do {
            size_t const bound = ZSTD_compressBound(ib.size - ib.pos); size_t const ipos0 = ib.pos; size_t cap = next_cap(&ro, k->out_style, bound); uint8_t* dst = (uint8_t*)sess_buf_get(1, cap); ZSTD_outBuffer ob; long const sc0 = sim_hook_probe_count(ZSTD_VP_cstream_endShortcut); const char* err;
            ob.dst = dst; ob.size = cap; ob.pos = 0;
            r = ZSTD_compressStream2(c, &ob, &ib, (ZSTD_EndDirective)dir);
            if ((err = sim_buf_check(dst)) != NULL) sim_violation("dst_overrun", "%s", err);
            if (ZSTD_isError(r)) { e->err = r; free(scratch); return; }
            ex_append(e, dst, ob.pos);
            sim_event("call dir=%d in=%zu..%zu/%zu cap=%zu(bound %zu) out=%zu ret=%zu sc=%ld", dir, ipos0, ib.pos, ib.size, cap, bound, ob.pos, r, sim_hook_probe_count(ZSTD_VP_cstream_endShortcut) - sc0);
            if (sim_hook_probe_count(ZSTD_VP_cstream_endShortcut) != sc0 && e->nframes < MAXF) e->shortcut[e->nframes] = 1 + sim_hook_probe_value(ZSTD_VP_cstream_endShortcut);   /* tail length compressed directly identifies where the shortcut cut in (the frame's total input is the same in both executions) */
            if (++guard > 20000000) sim_violation("livelock", "logical call does not complete");
        } while (ib.pos < ib.size || (dir != 0 && r != 0));
        pos += slice; last_was_end = (dir == 2); e->frame_in += slice;
        if (dir == 2) e->frame_in = 0;
        if (dir == 2 && e->nframes < MAXF) { e->nframes++; e->fstart[e->nframes] = e->n; }
    }
    free(scratch);
}

static void setup(ZSTD_CCtx* c, const Plan* p, Sess* s) {
    size_t r;
    ZSTD_CCtx_reset(c, ZSTD_reset_session_and_parameters);
    sess_apply_cparams(c, p); ZSTD_CCtx_setParameter(c, ZSTD_c_nbWorkers, 0);
    if (s->dict) { r = (int)plan_get(p, "dict_mode", 1) == 2 ? ZSTD_CCtx_refPrefix(c, s->dict, s->dict_size) : ZSTD_CCtx_loadDictionary(c, s->dict, s->dict_size); if (ZSTD_isError(r)) sim_violation("api_error", "dictionary rejected: %s", ZSTD_getErrorName(r)); }
}

/* prior history: everything here must be undone by reset(session_and_parameters) */
static void prior_history(ZSTD_CCtx* c, const Plan* p, Sess* s) {
    int const hk = (int)plan_get(p, "hist_kind", 0); Rng r; size_t n = 1000 + (size_t)plan_get(p, "hist_size", 50000); uint8_t* x = (uint8_t*)malloc(n); uint8_t* d = (uint8_t*)malloc(ZSTD_compressBound(n) + 64); size_t rr;
    rng_seed(&r, (uint64_t)plan_get(p, "hist_seed", 3), "history"); gen_input(&r, (int)rng_below(&r, GEN_NKINDS), x, n);
    if (hk & 1) {   /* complete frame(s): other parameters, or the target's own parameters; sizes biased to the tiny end (0..16 bytes) */
        int f, nf = 1 + (int)rng_below(&r, 3);
        for (f = 0; f < nf; f++) { size_t hn = rng_coin(&r, 1, 3) ? rng_below(&r, 17) : rng_coin(&r, 1, 2) ? rng_below(&r, 600) : n - rng_below(&r, n / 2); if (hn > n) hn = n;
            ZSTD_CCtx_reset(c, ZSTD_reset_session_and_parameters);
            if (rng_coin(&r, 1, 2)) { sess_apply_cparams(c, p); ZSTD_CCtx_setParameter(c, ZSTD_c_nbWorkers, 0); }
            else { ZSTD_CCtx_setParameter(c, ZSTD_c_compressionLevel, hn < 5000 ? (int)rng_range(&r, -3, 22) : (int)rng_range(&r, -3, 12)); ZSTD_CCtx_setParameter(c, ZSTD_c_windowLog, (int)rng_range(&r, 10, 22)); if (rng_coin(&r, 1, 3)) ZSTD_CCtx_setParameter(c, ZSTD_c_enableLongDistanceMatching, 1); if (rng_coin(&r, 1, 3)) ZSTD_CCtx_loadDictionary(c, x, n / 3); }
            rr = ZSTD_compress2(c, d, ZSTD_compressBound(n) + 64, x, hn); if (ZSTD_isError(rr)) sim_violation("api_error", "history frame failed: %s", ZSTD_getErrorName(rr)); }
        sim_probe("c07.hist_frames");
    }
    if (hk & 2) {   /* abandoned frame */
        ZSTD_inBuffer ib; ZSTD_outBuffer ob; ZSTD_CCtx_reset(c, ZSTD_reset_session_and_parameters); if (rng_coin(&r, 1, 2)) { sess_apply_cparams(c, p); ZSTD_CCtx_setParameter(c, ZSTD_c_nbWorkers, 0); } else ZSTD_CCtx_setParameter(c, ZSTD_c_compressionLevel, (int)rng_range(&r, 1, 9));
        ib.src = x; ib.size = rng_coin(&r, 1, 3) ? rng_below(&r, 17) : n / 2; ib.pos = 0; ob.dst = d; ob.size = 1 + rng_below(&r, 5000); ob.pos = 0; ZSTD_compressStream2(c, &ob, &ib, rng_coin(&r, 1, 2) ? ZSTD_e_continue : ZSTD_e_flush);
        ZSTD_CCtx_reset(c, ZSTD_reset_session_only); sim_probe("c07.hist_abandoned");
    }
    if (hk & 4) {   /* failed call: destination too small */
        ZSTD_CCtx_reset(c, ZSTD_reset_session_and_parameters); rr = ZSTD_compress2(c, d, 1 + rng_below(&r, 30), x, n);
        if (ZSTD_isError(rr)) sim_probe("c07.hist_dst_too_small"); ZSTD_CCtx_reset(c, ZSTD_reset_session_only);
    }
    if (hk & 8) {   /* injected allocation failure during a frame */
        ZSTD_CCtx_reset(c, ZSTD_reset_session_and_parameters); ZSTD_CCtx_setParameter(c, ZSTD_c_windowLog, 23); ZSTD_CCtx_setParameter(c, ZSTD_c_compressionLevel, 15);
        sim_alloc_fail_at(sim_alloc_calls() + 1, 0); rr = ZSTD_compress2(c, d, ZSTD_compressBound(n) + 64, x, n); sim_alloc_fail_at(0, 0);
        if (ZSTD_isError(rr)) sim_probe("c07.hist_alloc_failure"); ZSTD_CCtx_reset(c, ZSTD_reset_session_only);
    }
    if (hk & 16) {  /* pledged-size lie */
        ZSTD_inBuffer ib; ZSTD_outBuffer ob; ZSTD_CCtx_reset(c, ZSTD_reset_session_and_parameters); ZSTD_CCtx_setPledgedSrcSize(c, n + 5);
        ib.src = x; ib.size = n; ib.pos = 0; ob.dst = d; ob.size = ZSTD_compressBound(n) + 64; ob.pos = 0; rr = ZSTD_compressStream2(c, &ob, &ib, ZSTD_e_end);
        if (ZSTD_isError(rr)) sim_probe("c07.hist_pledge_error"); ZSTD_CCtx_reset(c, ZSTD_reset_session_only);
    }
    if (hk & 32) { sim_hook_set_index_jump((size_t)plan_get(p, "jump", 1 << 30)); }   /* the next frame that continues its index starts far along */
    (void)s; free(x); free(d);
}

static void gen(Plan* p, Rng* r, int tier, long idx) {
    size_t maxsz = tier ? (2u << 20) : (400u << 10); int axis = (int)(idx % 3); int nl, i; size_t n;
    sess_gen_input_params(p, r, maxsz);
    sess_gen_cparams(p, r, GP_NOMT);
    n = (size_t)plan_get(p, "in_size", 0);
    if (rng_coin(r, 1, 4)) { plan_set(p, "dict_kind", rng_range(r, 1, 2)); plan_set(p, "dict_size", (int64_t)(8 + rng_size(r, 60 << 10))); plan_set(p, "dict_seed", (int64_t)(rng_u64(r) >> 2)); plan_set(p, "dict_mode", 1); }
    plan_set(p, "axis", axis);
    nl = (int)rng_range(r, 0, 8);
    for (i = 0; i < nl; i++) { int x = (int)rng_below(r, 100); plan_add(p, "lop", 2, (int64_t)rng_chunk(r, n, 1 << 17), (int64_t)(x < 20 ? 1 : x < 30 ? 2 : 0)); }
    plan_set(p, "outA_style", (int64_t)rng_below(r, 5)); plan_set(p, "outA_seed", (int64_t)(rng_u64(r) >> 2));
    if (axis == 0) { plan_set(p, "hist_kind", 1 + (int64_t)rng_below(r, 63)); plan_set(p, "hist_size", (int64_t)rng_size(r, 300 << 10)); plan_set(p, "hist_seed", (int64_t)(rng_u64(r) >> 2)); plan_set(p, "jump", rng_range(r, 1 << 20, 3400LL << 20)); }
    if (axis == 1) { plan_set(p, "mem_kind", (int64_t)rng_below(r, 4)); plan_set(p, "pad16", rng_range(r, 1, 15)); plan_set(p, "src_align", rng_range(r, 1, 15)); }
    if (axis == 2) { plan_set(p, "outB_style", (int64_t)rng_below(r, 5)); plan_set(p, "outB_seed", (int64_t)(rng_u64(r) >> 2)); }
}

static void compare(const Exec* a, const Exec* b, int axis, const char* what) {
    int f;
    if (a->err || b->err) {
        if ((a->err != 0) != (b->err != 0)) sim_violation("outcome_depends_on_nuisance", "%s: one execution fails (%s), the other succeeds", what, ZSTD_getErrorName(a->err ? a->err : b->err));
        return;
    }
    if (a->nframes != b->nframes) sim_violation("output_differs", "%s: frame counts differ (%d vs %d)", what, a->nframes, b->nframes);
    for (f = 0; f < a->nframes && f < MAXF; f++) {
        size_t const la = a->fstart[f + 1] - a->fstart[f], lb = b->fstart[f + 1] - b->fstart[f];
        int const same = (la == lb) && !memcmp(a->w + a->fstart[f], b->w + b->fstart[f], la);
        if (same) { sim_probe("c07.frames_identical"); continue; }
        if (axis == 2 && a->shortcut[f] != b->shortcut[f]) { sim_note_finding("kf1_end_shortcut"); sim_probe("c07.kf1_frames"); continue; }
        { size_t d0 = 0; FwFrame fa, fb; char blk[160]; blk[0] = 0; while (d0 < la && d0 < lb && a->w[a->fstart[f] + d0] == b->w[b->fstart[f] + d0]) d0++;
          if (fw_parse(a->w + a->fstart[f], la, 0, &fa) == 0 && fw_parse(b->w + b->fstart[f], lb, 0, &fb) == 0) { int i; for (i = 0; i < fa.nblocks && i < fb.nblocks; i++) if (fa.blocks[i].bsize != fb.blocks[i].bsize || fa.blocks[i].type != fb.blocks[i].type) break;
              if (i < fa.nblocks && i < fb.nblocks) snprintf(blk, sizeof blk, " first differing block #%d of %d/%d: type %d size %zu vs type %d size %zu;", i, fa.nblocks, fb.nblocks, fa.blocks[i].type, fa.blocks[i].bsize, fb.blocks[i].type, fb.blocks[i].bsize); else snprintf(blk, sizeof blk, " block counts %d/%d;", fa.nblocks, fb.nblocks); fw_free(&fa); fw_free(&fb); }
          sim_event("first difference at frame offset %zu;%s", d0, blk); if (g_sim_verbose) fprintf(stderr, "DIFF frame offset %zu;%s\n", d0, blk); }
        sim_violation("output_differs", "%s: frame %d differs (%zu vs %zu bytes, end-shortcut at %zu/%zu) although input, parameters, dictionary and logical calls are identical", what, f, la, lb, a->shortcut[f], b->shortcut[f]);
    }
}

static void exec(const Plan* p) {
    Sess s; Exec ea, eb; Knobs ka, kb; ZSTD_CCtx* c0; ZSTD_CCtx* c1 = NULL; int axis = (int)plan_get(p, "axis", 0); void* wksp = NULL; const char* e;
    sess_init(&s); sess_make_input(&s, p); sess_make_dict(&s, p);
    memset(&ea, 0, sizeof ea); memset(&eb, 0, sizeof eb); memset(&ka, 0, sizeof ka);
    ka.out_style = (int)plan_get(p, "outA_style", 0); ka.out_seed = (uint64_t)plan_get(p, "outA_seed", 1); kb = ka;
    /* reference execution: fresh heap context */
    c0 = ZSTD_createCCtx_advanced(sess_cmem()); setup(c0, p, &s); run_logical(p, c0, s.in, s.in_size, &ka, &ea);
    if (ea.err) sim_violation("compress_error", "reference execution failed: %s", ZSTD_getErrorName(ea.err));
    sess_check_lib_roundtrip(ea.w, ea.n, s.in, s.in_size, s.dict, s.dict_size, (int)plan_get(p, "dict_mode", 1) == 2, sess_get_cparam(p, "format", 0) == 1);
    if (axis == 0) {
        c1 = ZSTD_createCCtx_advanced(sess_cmem()); prior_history(c1, p, &s); setup(c1, p, &s); run_logical(p, c1, s.in, s.in_size, &kb, &eb);
        compare(&ea, &eb, axis, "prior history (axis H)");
    } else if (axis == 1) {
        int mk = (int)plan_get(p, "mem_kind", 0);
        if (mk == 0) {   /* caller-provided static memory */
            ZSTD_CCtx_params* cp = ZSTD_createCCtxParams(); size_t need; int i, j;
            for (i = 0; i < p->nparams; i++) if (p->params[i].key[0] == 'c' && p->params[i].key[1] == '.') for (j = 0; g_cparams[j].name; j++) if (!strcmp(g_cparams[j].name, p->params[i].key + 2)) ZSTD_CCtxParams_setParameter(cp, (ZSTD_cParameter)g_cparams[j].id, (int)p->params[i].v);
            ZSTD_CCtxParams_setParameter(cp, ZSTD_c_nbWorkers, 0);
            need = ZSTD_estimateCStreamSize_usingCCtxParams(cp); ZSTD_freeCCtxParams(cp);
            if (!ZSTD_isError(need) && !s.dict) { need += (size_t)plan_get(p, "pad16", 1) * 64; wksp = malloc(need + 64); c1 = ZSTD_initStaticCCtx((char*)wksp + (64 - ((uintptr_t)wksp & 63)) % 64, need); }
            if (!c1) { sim_probe("c07.static_skipped"); eb.skipped = 1; }
        } else { sim_alloc_placement((unsigned)plan_get(p, "pad16", 1)); c1 = ZSTD_createCCtx_advanced(sess_cmem()); if (mk >= 2) kb.src_align = (int)plan_get(p, "src_align", 1); if (mk == 3) kb.scattered = 1; }
        if (c1) { setup(c1, p, &s); run_logical(p, c1, s.in, s.in_size, &kb, &eb);
            if (mk == 0 && eb.err && ZSTD_getErrorCode(eb.err) == ZSTD_error_memory_allocation) { sim_probe("c07.static_insufficient"); }   /* budget question: C14, not C07 */
            else compare(&ea, &eb, axis, mk == 0 ? "static vs heap context (axis A)" : "buffer placement (axis A)"); }
        sim_alloc_placement(0);
    } else {
        kb.out_style = (int)plan_get(p, "outB_style", 1); kb.out_seed = (uint64_t)plan_get(p, "outB_seed", 2);
        c1 = ZSTD_createCCtx_advanced(sess_cmem()); setup(c1, p, &s); run_logical(p, c1, s.in, s.in_size, &kb, &eb);
        compare(&ea, &eb, axis, "output buffer sizes (axis O)");
    }
    sim_event_bytes("wireA", ea.w, ea.n);
    if (ea.nframes >= 1 && s.in_size > 0) sim_mark_nontrivial();
    ZSTD_freeCCtx(c0); if (c1 && !wksp) ZSTD_freeCCtx(c1); free(wksp); free(ea.w); free(eb.w);
    if (sim_alloc_live_blocks() != 0) sim_violation("leak", "%ld allocator block(s) live at end", sim_alloc_live_blocks());
    if ((e = sim_alloc_check()) != NULL) sim_violation("heap_corruption", "%s", e);
    sess_free(&s);
}
const Scenario scen_c07pure = { "c07pure", "C07", gen, exec };
