#ifndef SCENARIOS_H
#define SCENARIOS_H
#include "../core/sim.h"
typedef struct {
    const char* name;      /* scenario id, e.g. "c12pool" */
    const char* prop;      /* property it decides */
    void (*gen)(Plan* p, Rng* r, int tier, long idx);   /* seed -> explicit plan */
    void (*exec)(const Plan* p);                        /* run plan, evaluate oracles */
} Scenario;
extern const Scenario* const g_scenarios[];   /* NULL-terminated */
#endif
