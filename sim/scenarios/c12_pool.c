/* c12_pool.c — C12: thread pool under every schedule.
 * System under simulation: the real lib/common/pool.c, its workers and 1–2 client threads, all scheduled by
 * simsched.  Client programs come from a seeded grammar over {add, tryAdd, joinJobs, resize, free}; jobs may
 * post further jobs.  Oracle: a small pool model (accepted/started/finished per job) evaluated during the run,
 * and — when the scheduler finds no enabled thread — a model-based classification of the quiescent state:
 * blocked although capacity exists / all work done / work queued with idle worker  => violation;
 * every worker occupied by a job that is itself blocked posting into a full pool     => inherent client deadlock. */
#define ZSTD_STATIC_LINKING_ONLY
#include "zstd.h"
#include "pool.h"
#include "scenarios.h"
#include "../sched/sim_redirect.h"

#define MAXJOBS 96
#define MAXOPS 64
typedef struct { int id, posted, accepted, started, finished, count, nest, child, work, waitfor; long accept_seq; } JobRec;
typedef struct { int kind, client, a, b, c, d; } COp;   /* kind: 0 add,1 tryadd,2 join,3 resize */

static struct {
    POOL_ctx* pool; JobRec jobs[MAXJOBS]; int njobs;
    COp ops[MAXOPS]; int nops;
    long seq; int free_started; int limit, queue, threads0;
    int blocked_add[64], blocked_join[64], is_client[64];
    pthread_mutex_t work_mu;
    pthread_mutex_t dep_mu; pthread_cond_t dep_cv; int dep_waiting[64]; pthread_mutex_t resize_mu;
} S;

static void do_work(int n) { int i; for (i = 0; i < n; i++) { sim_mutex_lock(&S.work_mu); sim_mutex_unlock(&S.work_mu); } }
static void job_fn(void* arg);

static void post(JobRec* j, int blocking) {
    int me = sim_self(); int unspecified = S.free_started;
    j->posted = 1; j->accepted = -1;   /* in flight */
    if (blocking) {
        S.blocked_add[me] = 1;
        POOL_add(S.pool, job_fn, j);
        S.blocked_add[me] = 0;
        j->accepted = unspecified || S.free_started ? 2 : 1;
    } else {
        int const r = POOL_tryAdd(S.pool, job_fn, j);
        j->accepted = r ? (unspecified || S.free_started ? 2 : 1) : 0;
        if (!r) sim_probe("pool.tryadd_refused");
    }
    j->accept_seq = ++S.seq;
    sim_event("post job=%d by=t%d blocking=%d accepted=%d", j->id, me, blocking, j->accepted);
}
static void job_fn(void* arg) {
    JobRec* j = (JobRec*)arg;
    j->count++;
    if (j->count > 1) sim_violation("pool_exactly_once", "job %d executed %d times", j->id, j->count);
    if (j->posted && j->accepted == 0) sim_violation("pool_refused_ran", "job %d ran although tryAdd reported refusal", j->id);
    j->started = 1;
    sim_event("start job=%d on=t%d", j->id, sim_self());
    do_work(j->work);
    if (j->waitfor >= 0 && j->waitfor < S.njobs && j->waitfor != j->id) {   /* a job may legitimately need a LATER job to run first when the pool has 2+ workers */
        sim_probe("pool.job_waits_for_job");
        sim_mutex_lock(&S.dep_mu); S.dep_waiting[sim_self()] = 1;
        while (!S.jobs[j->waitfor].finished) sim_cond_wait(&S.dep_cv, &S.dep_mu);
        S.dep_waiting[sim_self()] = 0; sim_mutex_unlock(&S.dep_mu);
    }
    if (j->nest && j->child >= 0 && j->child < S.njobs) { sim_probe(j->nest == 2 ? "pool.nested_add" : "pool.nested_tryadd"); post(&S.jobs[j->child], j->nest == 2); }
    do_work(j->work / 2);
    sim_mutex_lock(&S.dep_mu); j->finished = 1; sim_cond_broadcast(&S.dep_cv); sim_mutex_unlock(&S.dep_mu);
    sim_event("finish job=%d", j->id);
}
static void do_join(void) {
    int snap[MAXJOBS], n = 0, i, me = sim_self();
    for (i = 0; i < S.njobs; i++) if (S.jobs[i].accepted == 1 && S.jobs[i].accept_seq > 0) snap[n++] = i;
    S.blocked_join[me] = 1;
    POOL_joinJobs(S.pool);
    S.blocked_join[me] = 0;
    for (i = 0; i < n; i++) if (!S.jobs[snap[i]].finished)
        sim_violation("pool_join_postcondition", "joinJobs returned to t%d although accepted job %d has not finished", me, snap[i]);
    sim_event("join by=t%d covered=%d", me, n);
    if (n) sim_probe("pool.join_with_work");
}
static void run_client(int client) {
    int i;
    for (i = 0; i < S.nops; i++) {
        COp* o = &S.ops[i];
        if (o->client != client) continue;
        switch (o->kind) {
        case 0: case 1: if (o->a >= 0 && o->a < S.njobs && !S.jobs[o->a].posted) post(&S.jobs[o->a], o->kind == 0); break;
        case 2: do_join(); break;
        case 3: { int r; sim_mutex_lock(&S.resize_mu);   /* the model's limit must follow the order in which resizes take effect: clients do not overlap their resizes */
            r = POOL_resize(S.pool, (size_t)o->a); if (r == 0 && o->a > 0) S.limit = o->a; sim_mutex_unlock(&S.resize_mu); sim_event("resize n=%d r=%d", o->a, r); sim_probe("pool.resize"); break; }
        default: break;
        }
    }
}
static void* client_thread(void* arg) { run_client((int)(intptr_t)arg); return NULL; }

static int classify_deadlock(char* buf, size_t n) {
    int running = 0, queued = 0, i, idle_workers = 0, adders = 0, joiners = 0, nthreads = sim_thread_count(), main_in_free = 0;
    for (i = 0; i < S.njobs; i++) { JobRec* j = &S.jobs[i]; if (j->started && !j->finished) running++; if (j->accepted >= 1 && !j->started) queued++; }
    for (i = 0; i < nthreads; i++) {
        void* w; int st = sim_thread_state(i, &w);
        if (S.blocked_add[i]) adders++;
        if (S.blocked_join[i]) joiners++;
        if (!S.is_client[i] && st == ST_BLOCKED_COND) { int inside_job = 0; (void)w; if (S.blocked_add[i] || S.dep_waiting[i]) inside_job = 1; if (!inside_job) idle_workers++; }
        if (i == 0 && st == ST_BLOCKED_JOIN && S.free_started) main_in_free = 1;
    }
    snprintf(buf, n, "model: running=%d queued=%d limit=%d queue=%d idle_workers=%d blocked_add=%d blocked_join=%d in_free=%d",
             running, queued, S.limit, S.queue, idle_workers, adders, joiners, main_in_free);
    { int depw = 0; for (i = 0; i < nthreads; i++) depw += S.dep_waiting[i];
      if (main_in_free && !depw && !adders) return 0;              /* POOL_free never completes although no job is waiting on the program itself: always a violation */
      if (main_in_free && queued > 0 && running < S.limit && idle_workers > 0) return 0; }
    if (joiners && queued == 0 && running == 0) return 0;          /* joinJobs sleeps although all accepted work finished */
    if (queued > 0 && running < S.limit && idle_workers > 0) return 0;  /* work queued, idle worker asleep */
    if (adders) {
        int const capacity = S.queue == 0 ? (running < S.limit && queued == 0) : (queued < S.queue);
        if (capacity) return 0;                                    /* blocking post sleeps although capacity exists */
    }
    return 1;   /* every way forward is held by the client program itself */
}

static void gen(Plan* p, Rng* r, int tier, long idx) {
    int threads = (int)rng_range(r, 1, 3), queue = (int)rng_range(r, 0, 2), nclients = (int)rng_range(r, 1, 2);
    int nposts = (int)rng_range(r, 2, tier ? 16 : 10), i, nextjob = 0, minlimit = threads, nblocking = 0;
    int faults = (idx % 4) == 3;
    int resize_n[8], nres = 0, grow_at = -1, grow_to = 0, ndeps = 0;
    (void)tier;
    plan_set(p, "threads", threads); plan_set(p, "queue", queue); plan_set(p, "nclients", nclients);
    plan_set(p, "final_join", rng_coin(r, 1, 2));
    /* decide resizes first so the nested-blocking budget respects the smallest limit */
    { int k = rng_coin(r, 1, 3) ? (int)rng_range(r, 1, 2) : 0; for (i = 0; i < k; i++) { resize_n[nres] = (int)rng_range(r, 1, 4); if (resize_n[nres] < minlimit) minlimit = resize_n[nres]; nres++; } }
    /* shrink first, grow back later inside the existing capacity (every third program with 2+ threads) */
    if (threads >= 2 && (idx % 3) == 1) { int low = (int)rng_range(r, 1, threads - 1); plan_add(p, "resize", 2, (int64_t)0, (int64_t)low); if (low < minlimit) minlimit = low; grow_at = 1 + (int)rng_below(r, (uint64_t)nposts); grow_to = (int)rng_range(r, low + 1, threads); }
    for (i = 0; i < nposts; i++) {
        int client = (int)rng_below(r, (uint64_t)nclients), kind = rng_coin(r, 7, 10) ? 0 : 1, nest = 0, child = -1, id = nextjob++, waitfor = -1;
        if (i == grow_at) plan_add(p, "resize", 2, (int64_t)rng_below(r, (uint64_t)nclients), (int64_t)grow_to);
        int x = (int)rng_below(r, 100);
        if (x < 25) nest = 1; else if (x < 45 && nblocking < minlimit - 1) { nest = 2; nblocking++; }
        if (nest) child = nextjob++;
        if (i + 1 < nposts && ndeps + nblocking < (grow_at >= 0 ? grow_to : minlimit) - 1 && rng_coin(r, 1, 5)) { waitfor = nextjob; ndeps++; }   /* waits for the job posted next; like a nested blocking post it occupies a worker: same budget, counted against the limit the program ends with */
        plan_add(p, kind == 0 ? "add" : "tryadd", 6, (int64_t)client, (int64_t)id, (int64_t)nest, (int64_t)child, (int64_t)rng_below(r, 4), (int64_t)waitfor);
        if (rng_coin(r, 1, 5)) plan_add(p, "join", 1, (int64_t)rng_below(r, (uint64_t)nclients));
        if (nres && rng_coin(r, 1, 4)) { plan_add(p, "resize", 2, (int64_t)rng_below(r, (uint64_t)nclients), (int64_t)resize_n[--nres]); }
    }
    plan_set(p, "njobs", nextjob);
    sim_sched_plan_defaults(p, r, faults);
    if (faults) plan_set(p, "sched_fail_init", 0);
}

static void exec(const Plan* p) {
    int i, nclients, final_join, tid1 = -1;
    SimCMem cm = sim_cmem(); ZSTD_customMem zcm; const char* e;
    memset(&S, 0, sizeof S);
    memcpy(&zcm, &cm, sizeof zcm);
    S.threads0 = (int)plan_get(p, "threads", 1); S.queue = (int)plan_get(p, "queue", 0); S.limit = S.threads0;
    if (S.threads0 < 1) S.threads0 = S.limit = 1; if (S.threads0 > 8) S.threads0 = S.limit = 8; if (S.queue < 0) S.queue = 0; if (S.queue > 8) S.queue = 8;
    nclients = (int)plan_get(p, "nclients", 1); final_join = (int)plan_get(p, "final_join", 1);
    S.njobs = (int)plan_get(p, "njobs", 0); if (S.njobs > MAXJOBS) S.njobs = MAXJOBS; if (S.njobs < 0) S.njobs = 0;
    for (i = 0; i < MAXJOBS; i++) { S.jobs[i].id = i; S.jobs[i].child = -1; S.jobs[i].accepted = -1; S.jobs[i].waitfor = -1; }
    for (i = 0; i < p->nops && S.nops < MAXOPS; i++) {
        const PlanOp* o = &p->ops[i]; COp* c = &S.ops[S.nops];
        if (!strcmp(o->kind, "add") || !strcmp(o->kind, "tryadd")) {
            int id = (int)o->a[1];
            if (id < 0 || id >= S.njobs) continue;
            c->kind = o->kind[0] == 'a' ? 0 : 1; c->client = (int)o->a[0] & 1; c->a = id;
            S.jobs[id].nest = (int)o->a[2]; S.jobs[id].child = (int)o->a[3]; S.jobs[id].work = (int)o->a[4] & 7; S.jobs[id].waitfor = o->nargs > 5 ? (int)o->a[5] : -1;
            if (S.jobs[id].child == id) S.jobs[id].nest = 0;
            S.nops++;
        } else if (!strcmp(o->kind, "join")) { c->kind = 2; c->client = (int)o->a[0] & 1; S.nops++; }
        else if (!strcmp(o->kind, "resize")) { c->kind = 3; c->client = (int)o->a[0] & 1; c->a = (int)o->a[1]; if (c->a < 0) c->a = 0; if (c->a > 6) c->a = 6; S.nops++; }
    }
    if (nclients < 2) for (i = 0; i < S.nops; i++) S.ops[i].client = 0;
    sim_mutex_init(&S.work_mu, NULL); sim_mutex_init(&S.dep_mu, NULL); sim_cond_init(&S.dep_cv, NULL); sim_mutex_init(&S.resize_mu, NULL);
    sim_on_deadlock = classify_deadlock;
    S.is_client[0] = 1;
    S.pool = POOL_create_advanced((size_t)S.threads0, (size_t)S.queue, zcm);
    sim_event("create threads=%d queue=%d -> %s", S.threads0, S.queue, S.pool ? "ok" : "NULL");
    if (S.pool) {
        if (nclients >= 2) { tid1 = sim_spawn(client_thread, (void*)(intptr_t)1); if (tid1 > 0) S.is_client[tid1] = 1; else for (i = 0; i < S.nops; i++) S.ops[i].client = 0; }
        run_client(0);
        if (tid1 > 0) sim_join_tid(tid1);
        if (final_join) do_join();
        S.free_started = 1;
        POOL_free(S.pool);
        sim_event("freed");
        for (i = 0; i < S.njobs; i++) {
            JobRec* j = &S.jobs[i];
            if (j->accepted == 1 && j->count != 1) sim_violation("pool_exactly_once", "accepted job %d executed %d times by the time the pool was freed", i, j->count);
            if (j->accepted == 0 && j->count != 0) sim_violation("pool_refused_ran", "refused job %d executed", i);
            if (j->count == 1 && !j->finished) sim_violation("pool_free_joined", "job %d still running after POOL_free returned", i);
        }
        if (sim_sched_live_threads() != 0) sim_violation("pool_free_joined", "%d worker(s) alive after POOL_free", sim_sched_live_threads());
        { int acc = 0; for (i = 0; i < S.njobs; i++) acc += S.jobs[i].accepted == 1; if (acc >= 2) sim_mark_nontrivial(); }
    } else sim_probe("pool.create_failed");
    sim_mutex_destroy(&S.work_mu); sim_mutex_destroy(&S.dep_mu); sim_cond_destroy(&S.dep_cv); sim_mutex_destroy(&S.resize_mu);
    sim_on_deadlock = NULL;
    if (sim_alloc_live_blocks() != 0) { char b[200]; sim_alloc_describe_live(b, sizeof b); sim_violation("pool_leak", "%ld block(s) from the custom allocator not returned after free: %s", sim_alloc_live_blocks(), b); }
    if ((e = sim_alloc_check()) != NULL) sim_violation("pool_memory", "%s", e);
}

const Scenario scen_c12pool = { "c12pool", "C12", gen, exec };
