/* c02_stream.c — C02 / C05 / C10: streaming sessions under arbitrary call histories.
 * One implementation, three registered scenarios that differ in generator bias and in the oracles they own:
 *   c02stream : round trip under any compressor and decoder history; frame completion signalled exactly at frame ends
 *   c05conf   : everything emitted (any history, ST/MT, dictionaries, small windows) is accepted by the independent
 *               decoder, headers truthful, window / block-size / interoperability rules respected
 *   c10prog   : per-call progress; "producer crash" at every completed flush: the bytes so far decode to exactly the
 *               bytes consumed so far; hint-driven reading never asks beyond the frame and ends exactly on it
 * The simulator owns both ends of the pipe: segmentation of all four edges, directives, skippable frames on the wire. */
#include "../io/sess.h"
#include "scenarios.h"

enum { W_C02 = 1, W_C05 = 2, W_C10 = 4 };
typedef struct { int which; int family; int flush_checks; const Plan* p; int skippable; Rng sk; int dict_mode; } Ctx;

static void gen_common(Plan* p, Rng* r, int tier, long idx, int which) {
    size_t maxsz = which == W_C05 ? (tier ? (8u << 20) : (2u << 20)) : (tier ? (4u << 20) : (1u << 20));
    int mt = (idx % 7) == 6;
    (void)idx;
    sess_gen_input_params(p, r, maxsz);
    if (mt && plan_get(p, "in_size", 0) < (700 << 10) && rng_coin(r, 1, 2)) plan_set(p, "in_size", rng_range(r, 700 << 10, (int64_t)maxsz > (3 << 20) ? (3 << 20) : (int64_t)maxsz));
    sess_gen_cparams(p, r, (mt ? GP_FORCE_MT : GP_NOMT) | (which == W_C05 && rng_coin(r, 2, 3) ? GP_SMALLWIN : 0));
    if (mt) { int lvl = sess_get_cparam(p, "compressionLevel", 3); if (lvl > 5) plan_set(p, "c.compressionLevel", lvl % 5 + 1); if (sess_get_cparam(p, "strategy", 0) > 5) plan_set(p, "c.strategy", 2); }
    plan_set(p, "family", mt ? 0 : (int64_t)rng_below(r, 3));   /* 0 compressStream2, 1 legacy stream API, 2 stable buffers */
    if (rng_coin(r, 1, 4)) { plan_set(p, "dict_kind", rng_range(r, 1, 2)); plan_set(p, "dict_size", (int64_t)(8 + rng_size(r, 100 << 10))); plan_set(p, "dict_seed", (int64_t)(rng_u64(r) >> 2)); plan_set(p, "dict_mode", rng_range(r, 1, 2));
        /* Dictionary_ID at the edges of its 1 / 2 / 4-byte encodings */
        if (rng_coin(r, 1, 2)) { static const int64_t ids[] = { 1, 255, 256, 257, 65535, 65536, 65537, 0xFFFFFF, 0x1000000, 0x7FFFFFFF, 0xFFFFFFFFLL }; plan_set(p, "dict_id", ids[rng_below(r, sizeof ids / sizeof ids[0])]); } }
    if (rng_coin(r, 1, 4)) plan_set(p, "skippable", 1);
    sess_gen_chist(p, r, (size_t)plan_get(p, "in_size", 0), 1);
    if (which == W_C10) { int i, n = (int)rng_range(r, 2, 10); for (i = 0; i < n; i++) plan_add(p, "cs", 4, (int64_t)rng_chunk(r, (size_t)plan_get(p, "in_size", 0), 1 << 17), (int64_t)(1 + rng_chunk(r, 1 << 18, 1 << 17)), (int64_t)1, (int64_t)rng_range(r, 1, 6)); }
    if (mt) { /* bound the number of tiny-output calls: each is several scheduling points */
        int i; for (i = 0; i < p->nops; i++) if (!strcmp(p->ops[i].kind, "cs") && p->ops[i].a[3] > 150) p->ops[i].a[3] = 150;
        if (plan_get(p, "fin_out", 0) < 2000) plan_set(p, "fin_out", 2000 + (int64_t)rng_below(r, 100000)); }
    sess_gen_dhist(p, r);
    plan_set(p, "hint_out", rng_coin(r, 1, 2) ? (1 << 20) : rng_range(r, 1, 200000));
    plan_set(p, "hint_reinit", (int64_t)rng_below(r, 2));
    plan_set(p, "prelude", (idx % 4) == 2 ? 1 + (int64_t)(rng_u64(r) >> 40) : 0);
    /* one run in six: entropy-only noise (random or mixed content over a 16-100 symbol alphabet), long enough for literal sections beyond 64 KiB */
    if ((idx % 6) == 5) { plan_set(p, "in_alpha", rng_range(r, 16, 100)); plan_set(p, "in_kind", rng_coin(r, 1, 2) ? GEN_RANDOM : GEN_MIXED); if (plan_get(p, "in_size", 0) < (200 << 10) && !mt) plan_set(p, "in_size", rng_range(r, 200 << 10, 700 << 10)); if (rng_coin(r, 1, 2)) plan_set(p, "c.windowLog", rng_range(r, 17, 20)); }
    /* one run in twelve: the input ends, inside a block that is not the first, with a one-byte run of 32*j bytes plus 1-31 bytes of another value (the shapes an RLE-block test must tell apart) */
    if ((idx % 12) == 4) { int64_t const t = rng_range(r, 1, 31), j = rng_range(r, 1, 100), k = mt ? rng_range(r, 8, 20) : rng_range(r, 1, 3); plan_set(p, "in_runtail", t); plan_set(p, "in_runlen", 32 * j); plan_set(p, "in_size", 131072 * k + 32 * j + t); }
    sim_sched_plan_defaults(p, r, 0);
    plan_set(p, "sched_step_cap", tier ? 80000000 : 6000000);   /* thorough inputs are 4-8x larger: the budget of scheduling points follows */
}
static void gen02(Plan* p, Rng* r, int t, long i) { gen_common(p, r, t, i, W_C02); }
static void gen05(Plan* p, Rng* r, int t, long i) { gen_common(p, r, t, i, W_C05); }
static void gen10(Plan* p, Rng* r, int t, long i) { gen_common(p, r, t, i, W_C10); }

static void append_skippable(Sess* s, Ctx* c) {
    uint8_t hdr[8]; uint32_t n = (uint32_t)rng_below(&c->sk, 300); uint32_t magic = 0x184D2A50u + (uint32_t)rng_below(&c->sk, 16); uint8_t body[300]; uint32_t i;
    if (s->magicless) return;   /* skippable frames need the magic to be recognised */
    memcpy(hdr, &magic, 4); memcpy(hdr + 4, &n, 4);
    for (i = 0; i < n; i++) body[i] = (uint8_t)rng_u64(&c->sk);
    sess_wire_append(s, hdr, 8); sess_wire_append(s, body, n);
    s->frame_w_start = s->wire_size;
    sim_probe("c02.skippable_frames");
}
static void on_frame(Sess* s, void* ud) { Ctx* c = (Ctx*)ud; if (c->skippable && rng_coin(&c->sk, 1, 2)) append_skippable(s, c); }

static ZSTD_DCtx* new_dctx(Sess* s) {
    ZSTD_DCtx* d = ZSTD_createDCtx_advanced(sess_cmem());
    if (!d) sim_violation("create_failed", "ZSTD_createDCtx_advanced failed without fault");
    if (s->magicless) ZSTD_DCtx_setParameter(d, ZSTD_d_format, ZSTD_f_zstd1_magicless);
    ZSTD_DCtx_setParameter(d, ZSTD_d_windowLogMax, 31);
    if (s->dict) { if (s->dict_raw) ZSTD_DCtx_refPrefix_advanced(d, s->dict, s->dict_size, ZSTD_dct_rawContent); else ZSTD_DCtx_loadDictionary(d, s->dict, s->dict_size); }
    return d;
}

/* C10(b): the producer crashes right after a completed flush: what is on the wire must decode to what was consumed */
static void on_flush(Sess* s, void* ud) {
    Ctx* c = (Ctx*)ud; ZSTD_DCtx* d; ZSTD_inBuffer in; ZSTD_outBuffer out; uint8_t* buf; size_t ret = 1; long guard = 0;
    if (!(c->which & W_C10) || c->flush_checks >= 6) return;
    c->flush_checks++;
    d = new_dctx(s);
    if (s->dict && s->dict_raw) { /* single-use prefix: re-reference per frame below */ }
    buf = (uint8_t*)sim_buf_new(s->in_pos + 1);
    in.src = s->wire; in.size = s->wire_size; in.pos = 0; out.dst = buf; out.size = s->in_pos + 1; out.pos = 0;
    while (in.pos < in.size) {
        size_t const ip = in.pos, op = out.pos;
        ret = ZSTD_decompressStream(d, &out, &in);
        if (ZSTD_isError(ret)) sim_violation("flush_not_decodable", "after flush #%d completed (consumed %zu, emitted %zu): decoder fails on the bytes emitted so far: %s", s->nflushes, s->in_pos, s->wire_size, ZSTD_getErrorName(ret));
        if (ret == 0 && s->dict && s->dict_raw) ZSTD_DCtx_refPrefix_advanced(d, s->dict, s->dict_size, ZSTD_dct_rawContent);
        if (in.pos == ip && out.pos == op) break;
        if (++guard > 1000000) break;
    }
    if (out.pos != s->in_pos) sim_violation("flush_incomplete", "after flush #%d completed: the %zu bytes emitted regenerate %zu bytes, the compressor had consumed %zu", s->nflushes, s->wire_size, out.pos, s->in_pos);
    if (out.pos && memcmp(buf, s->in, out.pos)) sim_violation("flush_wrong_bytes", "after flush #%d completed: regenerated bytes differ from the input consumed", s->nflushes);
    if (in.pos != in.size) sim_violation("flush_not_decodable", "decoder stopped with %zu of %zu emitted bytes unconsumed", in.size - in.pos, in.size);
    if (ret == 0 && s->wire_size != s->frame_w_start) sim_violation("flush_reports_frame_end", "decoder reports a completed frame although the compressor only flushed (frame still open)");
    if (sim_buf_check(buf)) sim_violation("dst_overrun", "%s", sim_buf_check(buf));
    sim_buf_free(buf); ZSTD_freeDCtx(d);
    sim_probe("c10.flush_crash_decodes");
}

/* C10(c): a reader that supplies exactly what the decoder asks for */
static void hint_reader(Sess* s, const Plan* p) {
    ZSTD_DCtx* d = new_dctx(s); size_t pos = 0, presented = 0; size_t hint; size_t ocap = (size_t)plan_get(p, "hint_out", 1 << 20); uint8_t* out; size_t total_out = 0;
    size_t* frame_ends = NULL; int nfe = 0, cfe = 0, fi = 0; long guard = 0;
    { size_t ip = 0; while (ip < s->wire_size) { FwFrame f; if (fw_parse(s->wire + ip, s->wire_size - ip, s->magicless, &f) != 0) break; ip += f.total_size; if (nfe == cfe) { cfe = cfe ? cfe * 2 : 64; frame_ends = (size_t*)realloc(frame_ends, sizeof(size_t) * (size_t)cfe); } frame_ends[nfe++] = ip; fw_free(&f); } }
    if (ocap < 1) ocap = 1; if (ocap > (4u << 20)) ocap = 4u << 20;
    out = (uint8_t*)sim_buf_new(ocap);
    hint = ZSTD_initDStream(d);
    if (s->magicless) ZSTD_DCtx_setParameter(d, ZSTD_d_format, ZSTD_f_zstd1_magicless);
    if (s->dict) { if (s->dict_raw) ZSTD_DCtx_refPrefix_advanced(d, s->dict, s->dict_size, ZSTD_dct_rawContent); else ZSTD_DCtx_loadDictionary(d, s->dict, s->dict_size); }
    while (fi < nfe) {
        ZSTD_inBuffer in; ZSTD_outBuffer o; size_t want_end = pos + hint; size_t r;
        if (want_end < presented) want_end = presented;             /* re-present bytes the decoder left unconsumed */
        if (want_end > frame_ends[fi] && hint != 0)
            sim_violation("hint_beyond_frame", "decoder at offset %zu of the stream asks for %zu bytes, %zu beyond the end of frame %d", pos, hint, want_end - frame_ends[fi], fi);
        if (want_end > s->wire_size) want_end = s->wire_size;
        presented = want_end;
        in.src = s->wire + pos; in.size = presented - pos; in.pos = 0; o.dst = out; o.size = ocap; o.pos = 0;
        r = ZSTD_decompressStream(d, &o, &in);
        if (ZSTD_isError(r)) sim_violation("hint_reader_error", "hint-driven decoding fails at offset %zu: %s", pos, ZSTD_getErrorName(r));
        if (o.pos && (total_out + o.pos > s->in_size || memcmp(out, s->in + total_out, o.pos))) sim_violation("roundtrip_mismatch", "hint-driven decoding produces wrong bytes at output offset %zu", total_out);
        total_out += o.pos; pos += in.pos;
        if (r == 0) {
            if (pos != frame_ends[fi]) sim_violation("hint_frame_size", "frame %d reported complete after consuming up to %zu, frame ends at %zu", fi, pos, frame_ends[fi]);
            fi++; presented = pos;
            if (plan_get(p, "hint_reinit", 1)) {   /* either re-initialise per frame, or let the same stream run on into the next frame */
                hint = ZSTD_initDStream(d);
                if (s->magicless) ZSTD_DCtx_setParameter(d, ZSTD_d_format, ZSTD_f_zstd1_magicless);
                if (s->dict) { if (s->dict_raw) ZSTD_DCtx_refPrefix_advanced(d, s->dict, s->dict_size, ZSTD_dct_rawContent); else ZSTD_DCtx_loadDictionary(d, s->dict, s->dict_size); }
            } else { hint = s->magicless ? 1 : 5; sim_probe("c10.hint_reader_continuing_frames"); }   /* ZSTD_startingInputLength */
        } else {
            hint = r;
            if (in.pos == 0 && o.pos == 0 && in.size > 0 && hint == 0) break;
        }
        if (++guard > 4000000) sim_violation("livelock", "hint-driven reader did not finish");
    }
    if (total_out != s->in_size) sim_violation("roundtrip_mismatch", "hint-driven decoding regenerated %zu bytes, expected %zu", total_out, s->in_size);
    sim_buf_free(out); ZSTD_freeDCtx(d); free(frame_ends);
    sim_probe("c10.hint_reader_streams");
}

/* legacy streaming entry points: ZSTD_initCStream / compressStream / flushStream / endStream */
static size_t run_legacy_api(Sess* s, const Plan* p, ZSTD_CCtx* c) {
    int i; size_t fin_out = (size_t)plan_get(p, "fin_out", 1 << 17); long guard = 0; int frame_open = 0;
    if (fin_out < 1) fin_out = 1;
    for (i = 0; i <= p->nops; i++) {
        size_t in_len, out_cap; int dir; long rep, k;
        if (i < p->nops) { const PlanOp* o = &p->ops[i]; if (strcmp(o->kind, "cs")) continue; in_len = o->a[0] < 0 ? 0 : (size_t)o->a[0]; out_cap = o->a[1] < 0 ? 0 : (size_t)o->a[1]; dir = (int)o->a[2]; rep = o->a[3] < 1 ? 1 : o->a[3] > 100000 ? 100000 : (long)o->a[3]; }
        else { in_len = s->in_size; out_cap = fin_out; dir = 2; rep = 2000000000L; if (s->in_pos == s->in_size && s->nframes > 0 && !frame_open) break; }
        if (out_cap > ((size_t)1 << 26)) out_cap = (size_t)1 << 26;
        for (k = 0; k < rep; k++) {
            uint8_t* src; uint8_t* dst; ZSTD_inBuffer in; ZSTD_outBuffer out; size_t r; size_t n = in_len; const char* e;
            if (n > s->in_size - s->in_pos) n = s->in_size - s->in_pos;
            if (n <= 65536) { src = (uint8_t*)sess_buf_get(4, n); if (n) memcpy(src, s->in + s->in_pos, n); } else src = s->in + s->in_pos;
            dst = (uint8_t*)sess_buf_get(5, out_cap);
            in.src = src; in.size = n; in.pos = 0; out.dst = dst; out.size = out_cap; out.pos = 0;
            r = ZSTD_compressStream(c, &out, &in); frame_open = 1;
            if (ZSTD_isError(r)) return r;
            sess_wire_append(s, dst, out.pos); s->in_pos += in.pos; s->ncalls++;
            if ((e = sim_buf_check(dst)) != NULL) sim_violation("dst_overrun", "compressStream: %s", e);
            if (n > 0 && out_cap > 0 && in.pos == 0 && out.pos == 0) sim_violation("no_progress", "ZSTD_compressStream given %zu input and %zu output bytes made no progress", n, out_cap);
            if (dir == 1 || dir == 2) {
                /* flush / end must be repeated by the caller until they return 0; the plan's out_cap is reused */
                long g2 = 0; size_t cap2 = out_cap ? out_cap : 1;
                if (dir == 2 && in.pos < n) continue;   /* endStream takes no input: finish feeding first */
                for (;;) {
                    uint8_t* d2 = (uint8_t*)sess_buf_get(6, cap2); ZSTD_outBuffer o2; o2.dst = d2; o2.size = cap2; o2.pos = 0;
                    r = dir == 1 ? ZSTD_flushStream(c, &o2) : ZSTD_endStream(c, &o2);
                    if (ZSTD_isError(r)) return r;
                    if ((e = sim_buf_check(d2)) != NULL) sim_violation("dst_overrun", "flushStream/endStream: %s", e);
                    sess_wire_append(s, d2, o2.pos); s->ncalls++;
                    if (r != 0 && o2.pos == 0) sim_violation("no_progress", "%s returned %zu with %zu bytes of output space and wrote nothing", dir == 1 ? "flushStream" : "endStream", r, cap2);
                    if (r == 0) break;
                    if (++g2 > 10000000) sim_violation("livelock", "flushStream/endStream never completes");
                }
                if (dir == 1) { if (s->nflushes < 512) { s->flushes[s->nflushes].in_pos = s->in_pos; s->flushes[s->nflushes].w_pos = s->wire_size; s->nflushes++; } sim_probe("sess.flush_completed"); if (s->on_flush_complete) s->on_flush_complete(s, s->ud); }
                else { if (s->nframes < 256) { SessFrame* f = &s->frames[s->nframes++]; f->in_start = s->frame_in_start; f->in_end = s->in_pos; f->w_start = s->frame_w_start; f->w_end = s->wire_size; }
                       s->frame_in_start = s->in_pos; s->frame_w_start = s->wire_size; frame_open = 0; if (s->on_frame_complete) s->on_frame_complete(s, s->ud); }
            }
            if (i == p->nops && !frame_open && s->in_pos == s->in_size) break;   /* final stage: stop once the last frame is closed */
            if (s->in_pos == s->in_size && dir == 0 && k > 3) break;
            if (++guard > 60000000) sim_violation("livelock", "legacy streaming history too long");
        }
    }
    return 0;
}

/* stable-buffer modes: the caller promises the same (growing) input buffer / a single never-moving output buffer */
static size_t run_stable(Sess* s, const Plan* p, ZSTD_CCtx* c) {
    size_t const cap = ZSTD_compressBound(s->in_size) + 4096 + 64 * (size_t)p->nops; uint8_t* dst = (uint8_t*)sim_buf_new(cap); ZSTD_inBuffer in; ZSTD_outBuffer out; size_t r = 1; int i; long guard = 0;
    int const stable_in = (int)plan_get(p, "stable_in", 1), stable_out = (int)plan_get(p, "stable_out", 1); const char* e;
    if (stable_in) ZSTD_CCtx_setParameter(c, ZSTD_c_stableInBuffer, 1);
    if (stable_out) ZSTD_CCtx_setParameter(c, ZSTD_c_stableOutBuffer, 1);
    in.src = s->in; in.size = 0; in.pos = 0; out.dst = dst; out.size = cap; out.pos = 0;
    /* one frame; input grows at its end only, positions are never rewound; output buffer never moves or shrinks */
    for (i = 0; i <= p->nops && r != 0; i++) {
        size_t add; int dir;
        if (i < p->nops) { const PlanOp* o = &p->ops[i]; if (strcmp(o->kind, "cs")) continue; add = o->a[0] < 0 ? 0 : (size_t)o->a[0]; dir = (int)o->a[2] == 1 ? 1 : 0; }
        else { add = s->in_size; dir = 2; }
        if (in.size + add > s->in_size) add = s->in_size - in.size;
        in.size += add;
        do {
            size_t const ip = in.pos, op = out.pos;
            r = ZSTD_compressStream2(c, &out, &in, (ZSTD_EndDirective)dir); s->ncalls++;
            if (ZSTD_isError(r)) { sim_buf_free(dst); return r; }
            if ((e = sim_buf_check(dst)) != NULL) sim_violation("dst_overrun", "stable-buffer compressStream2: %s", e);
            if (dir != 0 && r != 0 && in.pos == ip && out.pos == op) sim_violation("no_progress", "stable-buffer compressStream2(dir=%d) returned %zu without progress", dir, r);
            if (++guard > 3000000) sim_violation("livelock", "stable-buffer history too long");
        } while (dir != 0 && r != 0);
        if (dir == 1) { s->in_pos = in.pos; s->wire_size = 0; sess_wire_append(s, dst, out.pos); if (s->nflushes < 512) s->nflushes++; sim_probe("sess.flush_completed"); if (s->on_flush_complete) s->on_flush_complete(s, s->ud); }
        if (dir == 2) break;
        r = 1;
    }
    s->in_pos = in.pos; s->wire_size = 0; sess_wire_append(s, dst, out.pos);
    if (s->nframes < 256) { SessFrame* f = &s->frames[s->nframes++]; f->in_start = 0; f->in_end = s->in_pos; f->w_start = 0; f->w_end = s->wire_size; }
    sim_buf_free(dst); sim_probe("c02.stable_buffer_frames");
    return 0;
}

static void exec_common(const Plan* p, int which) {
    Sess s; Ctx c; ZSTD_CCtx* cctx; size_t r; int family = (int)plan_get(p, "family", 0); const char* e; DecResult dr;
    sess_init(&s); memset(&c, 0, sizeof c); c.which = which; c.p = p; c.skippable = (int)plan_get(p, "skippable", 0); rng_seed(&c.sk, p->seed, "skippable");
    sess_make_input(&s, p); sess_make_dict(&s, p);
    s.magicless = sess_get_cparam(p, "format", 0) == 1;
    c.dict_mode = (int)plan_get(p, "dict_mode", 0);
    s.ud = &c; s.on_frame_complete = on_frame; s.on_flush_complete = on_flush;
    cctx = ZSTD_createCCtx_advanced(sess_cmem());
    if (!cctx) sim_violation("create_failed", "ZSTD_createCCtx_advanced failed without fault");
    /* prelude (one run in four): a frame is started on the same context, left with output pending in the internal buffer
     * (tiny output capacity), and abandoned by a reset - the producer gave up; the history proper then starts */
    if (plan_get(p, "prelude", 0)) {
        size_t const pn = s.in_size < 200000 ? s.in_size : 200000; uint8_t ob[16]; ZSTD_inBuffer ib; ZSTD_outBuffer o2; int k2, nk = (int)plan_get(p, "prelude", 1) % 7 + 1; size_t pr = 0;
        ZSTD_CCtx_setParameter(cctx, ZSTD_c_compressionLevel, sess_get_cparam(p, "compressionLevel", 3)); ZSTD_CCtx_setParameter(cctx, ZSTD_c_nbWorkers, sess_get_cparam(p, "nbWorkers", 0));
        ib.src = s.in; ib.size = pn; ib.pos = 0;
        for (k2 = 0; k2 < nk; k2++) { o2.dst = ob; o2.size = 1 + (size_t)(plan_get(p, "prelude", 1) >> 3) % 16; o2.pos = 0; pr = ZSTD_compressStream2(cctx, &o2, &ib, (k2 & 1) ? ZSTD_e_flush : ZSTD_e_continue); if (ZSTD_isError(pr)) break; }
        if (!ZSTD_isError(pr) && pr != 0) sim_probe("sess.prelude_abandoned_with_pending_output");
        switch ((plan_get(p, "prelude", 1) >> 8) % 3) { case 0: ZSTD_CCtx_reset(cctx, ZSTD_reset_session_only); ZSTD_CCtx_reset(cctx, ZSTD_reset_parameters); break; case 1: ZSTD_CCtx_reset(cctx, ZSTD_reset_session_and_parameters); break; default: ZSTD_initCStream(cctx, 3); ZSTD_CCtx_reset(cctx, ZSTD_reset_session_and_parameters); break; }
    }
    if (family == 1) { r = ZSTD_initCStream(cctx, sess_get_cparam(p, "compressionLevel", 3)); if (ZSTD_isError(r)) sim_violation("api_error", "initCStream: %s", ZSTD_getErrorName(r)); }
    sess_apply_cparams(cctx, p);
    if (family == 2) { ZSTD_CCtx_setParameter(cctx, ZSTD_c_nbWorkers, 0); }
    if (s.dict) {
        if (c.dict_mode == 2 && family == 2) { s.dict_raw = 1; r = ZSTD_CCtx_refPrefix(cctx, s.dict, s.dict_size); }   /* prefix: single frame only */
        else r = ZSTD_CCtx_loadDictionary(cctx, s.dict, s.dict_size);
        if (ZSTD_isError(r)) sim_violation("api_error", "dictionary rejected: %s", ZSTD_getErrorName(r));
    }
    if (family == 1) r = run_legacy_api(&s, p, cctx); else if (family == 2) r = run_stable(&s, p, cctx); else r = sess_run_chist(&s, p, cctx);
    if (ZSTD_isError(r)) sim_violation("compress_error", "streaming compression (family %d) failed on a legal history: %s", family, ZSTD_getErrorName(r));
    if (s.in_pos != s.in_size) sim_violation("incomplete", "history finished with %zu of %zu input bytes consumed", s.in_pos, s.in_size);
    sim_event("wire=%zu frames=%d flushes=%d calls=%ld", s.wire_size, s.nframes, s.nflushes, s.ncalls);
    sim_event_bytes("wire", s.wire, s.wire_size);
    if (s.ncalls >= 3) sim_mark_nontrivial();
    /* oracles */
    sess_check_lib_roundtrip(s.wire, s.wire_size, s.in, s.in_size, s.dict, s.dict_size, s.dict_raw, s.magicless);
    if (which & W_C05) { /* header truth: a structured dictionary's ID (bytes 4-7) unless dictIDFlag is off; raw content and prefixes have none */
        uint32_t want = 0; int known = 0;
        if (s.dict && !s.dict_raw && s.dict_size >= 8 && s.dict[0] == 0x37 && s.dict[1] == 0xA4 && s.dict[2] == 0x30 && s.dict[3] == 0xEC && sess_get_cparam(p, "dictIDFlag", 1) != 0) { want = (uint32_t)s.dict[4] | ((uint32_t)s.dict[5] << 8) | ((uint32_t)s.dict[6] << 16) | ((uint32_t)s.dict[7] << 24); known = 2; }
        sess_check_conformance(s.wire, s.wire_size, s.in, s.in_size, s.dict, s.dict_size, s.dict_raw, s.magicless, want, known, p); }
    if (which & W_C02) {
        ZSTD_DCtx* d = new_dctx(&s);
        sess_run_dhist(p, d, s.wire, s.wire_size, s.magicless, 1, &dr);
        if (dr.err) sim_violation("stream_decode_error", "decompressStream rejects a valid stream after %zu bytes: %s", dr.consumed, ZSTD_getErrorName(dr.err));
        if (dr.out_size != s.in_size || (dr.out_size && memcmp(dr.out, s.in, dr.out_size))) sim_violation("roundtrip_mismatch", "streaming decode regenerated %zu bytes, expected %zu, or content differs", dr.out_size, s.in_size);
        if (dr.consumed != s.wire_size) sim_violation("stream_decode_incomplete", "decoder stopped after %zu of %zu bytes", dr.consumed, s.wire_size);
        { size_t ip = 0; int nf = 0; while (ip < s.wire_size) { FwFrame f; if (fw_parse(s.wire + ip, s.wire_size - ip, s.magicless, &f) != 0) break; ip += f.total_size; nf++; fw_free(&f); }
          if (dr.frames_completed != nf) sim_violation("frame_end_signal", "stream holds %d frames, decompressStream returned 0 %d times", nf, dr.frames_completed); }
        sim_probe_n("c02.decode_calls", dr.ncalls);
        dec_result_free(&dr); ZSTD_freeDCtx(d);
    }
    if ((which & W_C10) && !(s.dict && s.dict_raw)) hint_reader(&s, p);
    ZSTD_freeCCtx(cctx);
    if (sim_alloc_live_blocks() != 0) { char b[200]; sim_alloc_describe_live(b, sizeof b); sim_violation("leak", "%ld allocator block(s) live after freeing every context: %s", sim_alloc_live_blocks(), b); }
    if ((e = sim_alloc_check()) != NULL) sim_violation("heap_corruption", "%s", e);
    sess_free(&s);
}
static void exec02(const Plan* p) { exec_common(p, W_C02); }
static void exec05(const Plan* p) { exec_common(p, W_C05); }
static void exec10(const Plan* p) { exec_common(p, W_C10); }
const Scenario scen_c02stream = { "c02stream", "C02", gen02, exec02 };
const Scenario scen_c05conf = { "c05conf", "C05", gen05, exec05 };
const Scenario scen_c10prog = { "c10prog", "C10", gen10, exec10 };
