/* c13_oom.c — C13: allocation failure anywhere (fault enumeration over the allocation index).
 * A run is one pair (API scenario S, fault index k): gen() first executes S fault-free under the run's own
 * schedule to count its allocations n(S) — deterministic because simsched fixes the schedule — and the run then
 * fails allocation 1 + (j mod n).  Consecutive run indices sweep k over 1..n for a fixed variant of S, so a batch
 * of NS*128 runs covers every k of every scenario (reported per scenario in the evidence probes).
 * Contexts use the simulator's ZSTD_customMem; trainers (which call libc directly) go through the --wrap seam.
 * Oracle: no signal / sanitizer report; NULL or an error code; everything handed out is returned exactly once by
 * the time the objects are freed; after ZSTD_CCtx_reset / ZSTD_DCtx_reset the same operation succeeds and
 * round-trips once memory is available. */
#include "../io/sess.h"
#include "scenarios.h"

#define NS 17
#define KMOD 64
typedef struct { const Plan* p; uint8_t* in; size_t in_size; uint8_t* dict; size_t dict_size; uint8_t* comp; size_t comp_size; uint8_t* comp2; size_t comp2_size; int level; int workers; int counting; long reached; int wrapmode; long k, k2, base; } Env;

static void arm(Env* e, long k, long k2) { if (e->wrapmode) sim_wrap_arm(k, k2); else sim_alloc_fail_at(k, k2); }
static void disarm(Env* e) { if (e->wrapmode) sim_wrap_disarm(); else sim_alloc_fail_at(0, 0); }
static long calls(Env* e) { return e->wrapmode ? sim_wrap_calls() : sim_alloc_calls(); }

static void check_rt(Env* e, const void* c, size_t csize, const char* what) {
    uint8_t* out = (uint8_t*)malloc(e->in_size + 1); size_t r; ZSTD_DCtx* d = ZSTD_createDCtx();
    if (e->dict) r = ZSTD_decompress_usingDict(d, out, e->in_size, c, csize, e->dict, e->dict_size); else r = ZSTD_decompressDCtx(d, out, e->in_size, c, csize);
    if (ZSTD_isError(r) || r != e->in_size || memcmp(out, e->in, r)) sim_violation("oom_recovery_roundtrip", "%s: output produced after the injected failure does not round-trip (%s)", what, ZSTD_isError(r) ? ZSTD_getErrorName(r) : "content differs");
    ZSTD_freeDCtx(d); free(out);
}
/* compress e->in with cctx via streaming; returns size or error */
static size_t stream_compress(ZSTD_CCtx* c, Env* e, uint8_t* dst, size_t cap, size_t chunk) {
    ZSTD_inBuffer in; ZSTD_outBuffer out; size_t r = 1; size_t pos = 0; long guard = 0;
    out.dst = dst; out.size = cap; out.pos = 0;
    while (pos < e->in_size || r != 0) {
        size_t n = e->in_size - pos < chunk ? e->in_size - pos : chunk; int last = pos + n == e->in_size;
        in.src = e->in + pos; in.size = n; in.pos = 0;
        r = ZSTD_compressStream2(c, &out, &in, last ? ZSTD_e_end : (guard % 3 == 2 ? ZSTD_e_flush : ZSTD_e_continue));
        if (ZSTD_isError(r)) return r;
        pos += in.pos;
        if (++guard > 100000) return (size_t)-ZSTD_error_GENERIC;
        if (last && in.pos == n && r == 0) break;
    }
    return out.pos;
}
static size_t stream_decompress(ZSTD_DCtx* d, const uint8_t* src, size_t n, uint8_t* dst, size_t cap, size_t chunk) {
    ZSTD_inBuffer in; ZSTD_outBuffer out; size_t pos = 0; size_t r = 1; long guard = 0;
    out.dst = dst; out.size = cap; out.pos = 0;
    while (pos < n) {
        size_t m = n - pos < chunk ? n - pos : chunk;
        in.src = src + pos; in.size = m; in.pos = 0;
        r = ZSTD_decompressStream(d, &out, &in);
        if (ZSTD_isError(r)) return r;
        pos += in.pos;
        if (++guard > 100000) return (size_t)-ZSTD_error_GENERIC;
    }
    return out.pos;
}
static void set_basic(ZSTD_CCtx* c, Env* e, int workers) {
    ZSTD_CCtx_setParameter(c, ZSTD_c_compressionLevel, e->level);
    ZSTD_CCtx_setParameter(c, ZSTD_c_checksumFlag, 1);
    if (plan_get(e->p, "ldm", 0)) ZSTD_CCtx_setParameter(c, ZSTD_c_enableLongDistanceMatching, 1);
    if (plan_get(e->p, "wlog", 0)) ZSTD_CCtx_setParameter(c, ZSTD_c_windowLog, (int)plan_get(e->p, "wlog", 0));
    if (workers) { ZSTD_CCtx_setParameter(c, ZSTD_c_nbWorkers, workers); ZSTD_CCtx_setParameter(c, ZSTD_c_jobSize, 512 << 10); }
}
#define OUTCAP(e) (ZSTD_compressBound((e)->in_size) + 64)
/* After a failed operation: session reset, faults off, the same operation must succeed and round-trip. */
#define RECOVER_C(c, e, dst, expr, what) do { size_t rr_; disarm(e); ZSTD_CCtx_reset((c), ZSTD_reset_session_only); rr_ = (expr); \
    if (ZSTD_isError(rr_)) sim_violation("oom_not_reusable", "%s: after an injected allocation failure and a session reset the same operation fails: %s", what, ZSTD_getErrorName(rr_)); \
    check_rt((e), (dst), rr_, what); sim_probe("c13.recovered"); } while (0)

/* each scenario: performs its API calls with faults armed by the caller; must free everything it created */
static void s_cctx_oneshot(Env* e) {
    ZSTD_CCtx* c = ZSTD_createCCtx_advanced(sess_cmem()); uint8_t* dst = (uint8_t*)malloc(OUTCAP(e)); size_t r;
    if (c) { set_basic(c, e, 0); r = ZSTD_compress2(c, dst, OUTCAP(e), e->in, e->in_size);
        if (ZSTD_isError(r)) { e->reached++; RECOVER_C(c, e, dst, ZSTD_compress2(c, dst, OUTCAP(e), e->in, e->in_size), "compress2"); } else if (!e->counting) check_rt(e, dst, r, "compress2"); }
    ZSTD_freeCCtx(c); free(dst);
}
static void s_cctx_dict_stream(Env* e) {
    ZSTD_CCtx* c = ZSTD_createCCtx_advanced(sess_cmem()); uint8_t* dst = (uint8_t*)malloc(OUTCAP(e)); size_t r;
    if (c) { set_basic(c, e, 0); r = ZSTD_CCtx_loadDictionary(c, e->dict, e->dict_size);
        if (!ZSTD_isError(r)) r = stream_compress(c, e, dst, OUTCAP(e), 30000);
        if (ZSTD_isError(r)) { e->reached++; disarm(e); ZSTD_CCtx_reset(c, ZSTD_reset_session_only); r = ZSTD_CCtx_loadDictionary(c, e->dict, e->dict_size);
            if (!ZSTD_isError(r)) r = stream_compress(c, e, dst, OUTCAP(e), 30000);
            if (ZSTD_isError(r)) sim_violation("oom_not_reusable", "loadDictionary+stream: after failure and reset: %s", ZSTD_getErrorName(r));
            check_rt(e, dst, r, "loadDictionary+stream"); sim_probe("c13.recovered"); }
        else if (!e->counting) check_rt(e, dst, r, "loadDictionary+stream"); }
    ZSTD_freeCCtx(c); free(dst);
}
static void s_cdict(Env* e, int byref) {
    ZSTD_compressionParameters cp = ZSTD_getCParams(e->level, e->in_size, e->dict_size);
    ZSTD_CDict* cd = ZSTD_createCDict_advanced(e->dict, e->dict_size, byref ? ZSTD_dlm_byRef : ZSTD_dlm_byCopy, ZSTD_dct_auto, cp, sess_cmem());
    ZSTD_CCtx* c = ZSTD_createCCtx_advanced(sess_cmem()); uint8_t* dst = (uint8_t*)malloc(OUTCAP(e)); size_t r;
    if (cd && c) {
        if (byref) { r = ZSTD_CCtx_refCDict(c, cd); if (!ZSTD_isError(r)) r = stream_compress(c, e, dst, OUTCAP(e), 1 << 20); }
        else r = ZSTD_compress_usingCDict(c, dst, OUTCAP(e), e->in, e->in_size, cd);
        if (ZSTD_isError(r)) { e->reached++; disarm(e); ZSTD_CCtx_reset(c, ZSTD_reset_session_only); r = ZSTD_compress_usingCDict(c, dst, OUTCAP(e), e->in, e->in_size, cd);
            if (ZSTD_isError(r)) sim_violation("oom_not_reusable", "CDict compression: after failure and reset: %s", ZSTD_getErrorName(r));
            check_rt(e, dst, r, "usingCDict"); sim_probe("c13.recovered"); }
        else if (!e->counting) check_rt(e, dst, r, "usingCDict");
    }
    ZSTD_freeCCtx(c); ZSTD_freeCDict(cd); free(dst);
}
static void s_cdict_copy(Env* e) { s_cdict(e, 0); }
static void s_cdict_ref(Env* e) { s_cdict(e, 1); }
static void s_mt_oneshot(Env* e) {
    ZSTD_CCtx* c = ZSTD_createCCtx_advanced(sess_cmem()); uint8_t* dst = (uint8_t*)malloc(OUTCAP(e)); size_t r;
    if (c) { set_basic(c, e, e->workers); r = ZSTD_compress2(c, dst, OUTCAP(e), e->in, e->in_size);
        if (ZSTD_isError(r)) { e->reached++; RECOVER_C(c, e, dst, ZSTD_compress2(c, dst, OUTCAP(e), e->in, e->in_size), "MT compress2"); } else if (!e->counting) check_rt(e, dst, r, "MT compress2"); }
    ZSTD_freeCCtx(c); free(dst);
}
static void s_mt_stream_resize(Env* e) {
    ZSTD_CCtx* c = ZSTD_createCCtx_advanced(sess_cmem()); uint8_t* dst = (uint8_t*)malloc(OUTCAP(e)); size_t r;
    if (c) { set_basic(c, e, 1); r = stream_compress(c, e, dst, OUTCAP(e), 200000);
        if (!ZSTD_isError(r)) { if (!e->counting) check_rt(e, dst, r, "MT stream (1 worker)"); ZSTD_CCtx_setParameter(c, ZSTD_c_nbWorkers, e->workers + 1); r = stream_compress(c, e, dst, OUTCAP(e), 300000); }
        if (ZSTD_isError(r)) { e->reached++; RECOVER_C(c, e, dst, stream_compress(c, e, dst, OUTCAP(e), 300000), "MT stream after resize"); } else if (!e->counting) check_rt(e, dst, r, "MT stream resized"); }
    ZSTD_freeCCtx(c); free(dst);
}
static void s_dctx_oneshot(Env* e) {
    ZSTD_DCtx* d = ZSTD_createDCtx_advanced(sess_cmem()); uint8_t* out = (uint8_t*)malloc(e->in_size + 1); size_t r;
    if (d) { r = e->dict ? ZSTD_decompress_usingDict(d, out, e->in_size, e->comp, e->comp_size, e->dict, e->dict_size) : ZSTD_decompressDCtx(d, out, e->in_size, e->comp, e->comp_size);
        if (ZSTD_isError(r)) { e->reached++; disarm(e); ZSTD_DCtx_reset(d, ZSTD_reset_session_only); r = e->dict ? ZSTD_decompress_usingDict(d, out, e->in_size, e->comp, e->comp_size, e->dict, e->dict_size) : ZSTD_decompressDCtx(d, out, e->in_size, e->comp, e->comp_size);
            if (ZSTD_isError(r)) sim_violation("oom_not_reusable", "decompressDCtx after failure and reset: %s", ZSTD_getErrorName(r)); sim_probe("c13.recovered"); }
        if (r != e->in_size || memcmp(out, e->in, r)) sim_violation("oom_wrong_output", "decompression returned success with wrong content"); }
    ZSTD_freeDCtx(d); free(out);
}
static void s_dstream_grow(Env* e) {
    /* two frames through one DStream: the second has a larger window => internal buffers grow */
    ZSTD_DCtx* d = ZSTD_createDCtx_advanced(sess_cmem()); uint8_t* out = (uint8_t*)malloc(e->in_size + 1); size_t r;
    if (d) {
        if (e->dict) ZSTD_DCtx_loadDictionary(d, e->dict, e->dict_size);
        r = stream_decompress(d, e->comp2, e->comp2_size, out, e->in_size, 4000);
        if (!ZSTD_isError(r)) r = stream_decompress(d, e->comp, e->comp_size, out, e->in_size, 7000);
        if (ZSTD_isError(r)) { e->reached++; disarm(e); ZSTD_DCtx_reset(d, ZSTD_reset_session_only); if (e->dict) ZSTD_DCtx_loadDictionary(d, e->dict, e->dict_size); r = stream_decompress(d, e->comp, e->comp_size, out, e->in_size, 7000);
            if (ZSTD_isError(r)) sim_violation("oom_not_reusable", "decompressStream after failure and reset: %s", ZSTD_getErrorName(r)); sim_probe("c13.recovered"); }
        if (r != e->in_size || memcmp(out, e->in, r)) sim_violation("oom_wrong_output", "streaming decompression returned success with wrong content");
    }
    ZSTD_freeDCtx(d); free(out);
}
static void s_ddict(Env* e) {
    ZSTD_DDict* dd = ZSTD_createDDict_advanced(e->dict, e->dict_size, ZSTD_dlm_byCopy, ZSTD_dct_auto, sess_cmem());
    ZSTD_DCtx* d = ZSTD_createDCtx_advanced(sess_cmem()); uint8_t* out = (uint8_t*)malloc(e->in_size + 1); size_t r;
    if (dd && d) { r = ZSTD_decompress_usingDDict(d, out, e->in_size, e->comp, e->comp_size, dd);
        if (ZSTD_isError(r)) { e->reached++; disarm(e); ZSTD_DCtx_reset(d, ZSTD_reset_session_only); r = ZSTD_decompress_usingDDict(d, out, e->in_size, e->comp, e->comp_size, dd); if (ZSTD_isError(r)) sim_violation("oom_not_reusable", "usingDDict after failure and reset: %s", ZSTD_getErrorName(r)); }
        if (r != e->in_size || memcmp(out, e->in, r)) sim_violation("oom_wrong_output", "usingDDict returned success with wrong content"); }
    ZSTD_freeDCtx(d); ZSTD_freeDDict(dd); free(out);
}
static void s_multiddict(Env* e) {
    /* a decoder that references 20 dictionaries with distinct IDs (the hash set grows at the 17th); after a failed reference the
     * session is reset, the reference retried, and frames made with early and late dictionaries must still find theirs */
    enum { ND = 20 };
    ZSTD_DCtx* d = ZSTD_createDCtx_advanced(sess_cmem()); ZSTD_DDict* dds[ND]; int i; size_t const n = e->in_size < 20000 ? e->in_size : 20000; uint8_t* out = (uint8_t*)malloc(n + 1);
    uint8_t* base = NULL; size_t bsize = 0; uint8_t* copies[ND]; uint8_t* frames[3]; size_t fsize[3]; static const int k_use[3] = { 0, 9, ND - 1 };
    memset(dds, 0, sizeof dds); memset(copies, 0, sizeof copies); memset(frames, 0, sizeof frames);
    {   /* one structured dictionary from the input, then copies that differ in their ID only (default allocator: not under fault here) */
        size_t sizes[8]; unsigned ns = 0; size_t tot = 0; ZDICT_params_t zp; uint8_t* buf = (uint8_t*)malloc(4096); size_t const content = e->dict_size < 1500 ? e->dict_size : 1500;
        memset(&zp, 0, sizeof zp); zp.dictID = 40000; while (ns < 8 && tot + 64 <= e->in_size) { size_t l = e->in_size / 8; if (l < 64) l = 64; if (tot + l > e->in_size) l = e->in_size - tot; sizes[ns++] = l; tot += l; }
        if (ns && content >= 8) { bsize = ZDICT_finalizeDictionary(buf, 4096, e->dict, content, e->in, sizes, ns, zp); if (ZDICT_isError(bsize)) bsize = 0; }
        base = buf;
    }
    if (bsize) for (i = 0; i < ND; i++) { unsigned const id = 40000 + (unsigned)i * 7; copies[i] = (uint8_t*)malloc(bsize); memcpy(copies[i], base, bsize); copies[i][4] = (uint8_t)id; copies[i][5] = (uint8_t)(id >> 8); copies[i][6] = (uint8_t)(id >> 16); copies[i][7] = (uint8_t)(id >> 24); }
    if (bsize) for (i = 0; i < 3; i++) { ZSTD_CCtx* c = ZSTD_createCCtx(); size_t const cap = ZSTD_compressBound(n) + 64; frames[i] = (uint8_t*)malloc(cap); fsize[i] = ZSTD_compress_usingDict(c, frames[i], cap, e->in, n, copies[k_use[i]], bsize, 3); ZSTD_freeCCtx(c); if (ZSTD_isError(fsize[i])) fsize[i] = 0; }
    if (d && bsize) { size_t r; ZSTD_DCtx_setParameter(d, ZSTD_d_refMultipleDDicts, ZSTD_rmd_refMultipleDDicts);
        for (i = 0; i < ND; i++) {
            dds[i] = ZSTD_createDDict_advanced(copies[i], bsize, ZSTD_dlm_byRef, ZSTD_dct_fullDict, sess_cmem());
            if (!dds[i]) { e->reached++; disarm(e); dds[i] = ZSTD_createDDict_advanced(copies[i], bsize, ZSTD_dlm_byRef, ZSTD_dct_fullDict, sess_cmem()); if (!dds[i]) sim_violation("oom_not_reusable", "createDDict fails without fault"); }
            r = ZSTD_DCtx_refDDict(d, dds[i]);
            if (ZSTD_isError(r)) { e->reached++; disarm(e); ZSTD_DCtx_reset(d, ZSTD_reset_session_only); r = ZSTD_DCtx_refDDict(d, dds[i]); if (ZSTD_isError(r)) sim_violation("oom_not_reusable", "refDDict of dictionary %d after failure and reset: %s", i, ZSTD_getErrorName(r)); sim_probe("c13.recovered"); }
        }
        if (!e->counting) for (i = 0; i < 3; i++) if (fsize[i]) {
            r = ZSTD_decompressDCtx(d, out, n, frames[i], fsize[i]);
            if (ZSTD_isError(r)) { if (ZSTD_getErrorCode(r) == ZSTD_error_memory_allocation) { e->reached++; disarm(e); ZSTD_DCtx_reset(d, ZSTD_reset_session_only); r = ZSTD_decompressDCtx(d, out, n, frames[i], fsize[i]); } if (ZSTD_isError(r)) sim_violation("oom_not_reusable", "multi-DDict decoder no longer finds dictionary %d (of %d referenced): %s", k_use[i], ND, ZSTD_getErrorName(r)); }
            if (r != n || memcmp(out, e->in, n)) sim_violation("oom_wrong_output", "multi-DDict decode returned success with wrong content");
        }
    }
    ZSTD_freeDCtx(d); for (i = 0; i < ND; i++) { ZSTD_freeDDict(dds[i]); free(copies[i]); } for (i = 0; i < 3; i++) free(frames[i]); free(base); free(out);
}
static void s_prefix_ldm(Env* e) {
    ZSTD_CCtx* c = ZSTD_createCCtx_advanced(sess_cmem()); uint8_t* dst = (uint8_t*)malloc(OUTCAP(e)); size_t r;
    if (c) { set_basic(c, e, 0); ZSTD_CCtx_setParameter(c, ZSTD_c_enableLongDistanceMatching, 1); ZSTD_CCtx_refPrefix(c, e->dict, e->dict_size);
        r = ZSTD_compress2(c, dst, OUTCAP(e), e->in, e->in_size);
        if (ZSTD_isError(r)) { e->reached++; disarm(e); ZSTD_CCtx_reset(c, ZSTD_reset_session_only); ZSTD_CCtx_refPrefix(c, e->dict, e->dict_size); r = ZSTD_compress2(c, dst, OUTCAP(e), e->in, e->in_size);
            if (ZSTD_isError(r)) sim_violation("oom_not_reusable", "prefix+LDM after failure and reset: %s", ZSTD_getErrorName(r)); sim_probe("c13.recovered"); }
        { ZSTD_DCtx* d = ZSTD_createDCtx(); uint8_t* out = (uint8_t*)malloc(e->in_size + 1); size_t q; ZSTD_DCtx_refPrefix(d, e->dict, e->dict_size); q = ZSTD_decompressDCtx(d, out, e->in_size, dst, r);
          if (ZSTD_isError(q) || q != e->in_size || memcmp(out, e->in, q)) sim_violation("oom_recovery_roundtrip", "prefix+LDM output does not round-trip"); ZSTD_freeDCtx(d); free(out); } }
    ZSTD_freeCCtx(c); free(dst);
}
static void s_mt_then_st(Env* e) {
    /* MT frame, parameter reset, ST frame on the same context, then MT again */
    ZSTD_CCtx* c = ZSTD_createCCtx_advanced(sess_cmem()); uint8_t* dst = (uint8_t*)malloc(OUTCAP(e)); size_t r;
    if (c) { set_basic(c, e, e->workers); r = ZSTD_compress2(c, dst, OUTCAP(e), e->in, e->in_size);
        if (!ZSTD_isError(r)) { ZSTD_CCtx_reset(c, ZSTD_reset_session_and_parameters); set_basic(c, e, 0); r = ZSTD_compress2(c, dst, OUTCAP(e), e->in, e->in_size); }
        if (!ZSTD_isError(r)) { set_basic(c, e, 1); r = ZSTD_compress2(c, dst, OUTCAP(e), e->in, e->in_size); }
        if (ZSTD_isError(r)) { e->reached++; RECOVER_C(c, e, dst, ZSTD_compress2(c, dst, OUTCAP(e), e->in, e->in_size), "MT/ST alternation"); } else if (!e->counting) check_rt(e, dst, r, "MT/ST alternation"); }
    ZSTD_freeCCtx(c); free(dst);
}
static void s_mt_prefix_reuse(Env* e) {
    /* a context that has already run an MT frame with a prefix owns a digested copy of it; the faults start with the NEXT such frames
     * (allocation indices count from there), the second of them with another worker count */
    ZSTD_CCtx* c; uint8_t* dst = (uint8_t*)malloc(OUTCAP(e)); size_t r; const uint8_t* pre = e->dict ? e->dict : e->in; size_t const pn = e->dict ? e->dict_size : (e->in_size < 4096 ? e->in_size : 4096); int f;
    disarm(e); c = ZSTD_createCCtx_advanced(sess_cmem());
    set_basic(c, e, e->workers); ZSTD_CCtx_refPrefix(c, pre, pn); r = ZSTD_compress2(c, dst, OUTCAP(e), e->in, e->in_size);
    if (ZSTD_isError(r)) sim_violation("compress_error", "fault-free MT frame with a prefix: %s", ZSTD_getErrorName(r));
    e->base = calls(e); if (e->k) sim_alloc_fail_at(e->base + e->k, e->k2 ? e->base + e->k2 : 0);
    for (f = 0; f < 2; f++) {
        if (f == 1) ZSTD_CCtx_setParameter(c, ZSTD_c_nbWorkers, e->workers == 2 ? 3 : 2);
        ZSTD_CCtx_refPrefix(c, pre, pn); r = ZSTD_compress2(c, dst, OUTCAP(e), e->in, e->in_size);
        if (ZSTD_isError(r)) { e->reached++; disarm(e); ZSTD_CCtx_reset(c, ZSTD_reset_session_only); ZSTD_CCtx_refPrefix(c, pre, pn); r = ZSTD_compress2(c, dst, OUTCAP(e), e->in, e->in_size);
            if (ZSTD_isError(r)) sim_violation("oom_not_reusable", "MT frame with a prefix on a reused context, after an injected allocation failure and a session reset: %s", ZSTD_getErrorName(r)); sim_probe("c13.recovered"); }
        if (!e->counting) { ZSTD_DCtx* d = ZSTD_createDCtx(); uint8_t* out = (uint8_t*)malloc(e->in_size + 1); size_t q; ZSTD_DCtx_refPrefix(d, pre, pn); q = ZSTD_decompressDCtx(d, out, e->in_size, dst, r);
            if (ZSTD_isError(q) || q != e->in_size || memcmp(out, e->in, q)) sim_violation("oom_recovery_roundtrip", "MT frame %d with a prefix on a reused context does not round-trip", f + 2); ZSTD_freeDCtx(d); free(out); }
    }
    ZSTD_freeCCtx(c); free(dst);
}
/* ---- default allocator / trainers through the libc seam ---- */
static void make_samples(Env* e, size_t* sizes, unsigned* ns) { unsigned n = 0; size_t tot = 0; while (n < 64 && tot < e->in_size) { size_t l = e->in_size / 64 + 1; if (tot + l > e->in_size) l = e->in_size - tot; sizes[n++] = l; tot += l; } *ns = n; }
static void check_dict_usable(Env* e, const void* d, size_t n, const char* what) {
    ZSTD_CDict* cd; ZSTD_DDict* dd; int was = 0;
    (void)e; (void)was;
    sim_wrap_disarm();
    cd = ZSTD_createCDict(d, n, 3); dd = ZSTD_createDDict(d, n);
    if (!cd || !dd) sim_violation("oom_bad_dict", "%s returned a dictionary of %zu bytes that does not load", what, n);
    ZSTD_freeCDict(cd); ZSTD_freeDDict(dd);
}
static void s_train_fastcover(Env* e) {
    size_t sizes[64]; unsigned ns; uint8_t* d = (uint8_t*)malloc(20000); size_t r; ZDICT_fastCover_params_t fp;
    make_samples(e, sizes, &ns); memset(&fp, 0, sizeof fp); fp.k = 50; fp.d = 8; fp.f = 12; fp.steps = 2; fp.nbThreads = (unsigned)plan_get(e->p, "train_threads", 1); fp.accel = 1;
    arm(e, plan_get(e->p, "k_eff", 0), 0);
    r = plan_get(e->p, "train_opt", 0) ? ZDICT_optimizeTrainFromBuffer_fastCover(d, 20000, e->in, sizes, ns, &fp) : ZDICT_trainFromBuffer_fastCover(d, 20000, e->in, sizes, ns, fp);
    disarm(e);
    if (!ZDICT_isError(r)) { if (r > 20000) sim_violation("oom_bad_dict", "fastCover returned size %zu > capacity", r); if (r) check_dict_usable(e, d, r, "fastCover"); } else e->reached++;
    free(d);
}
static void s_train_cover(Env* e) {
    size_t sizes[64]; unsigned ns; uint8_t* d = (uint8_t*)malloc(20000); size_t r; ZDICT_cover_params_t cp;
    make_samples(e, sizes, &ns); memset(&cp, 0, sizeof cp); cp.k = 60; cp.d = 8; cp.steps = 2; cp.nbThreads = (unsigned)plan_get(e->p, "train_threads", 1);
    arm(e, plan_get(e->p, "k_eff", 0), 0);
    r = plan_get(e->p, "train_opt", 0) ? ZDICT_optimizeTrainFromBuffer_cover(d, 20000, e->in, sizes, ns, &cp) : ZDICT_trainFromBuffer_cover(d, 20000, e->in, sizes, ns, cp);
    disarm(e);
    if (!ZDICT_isError(r)) { if (r > 20000) sim_violation("oom_bad_dict", "cover returned size %zu > capacity", r); if (r) check_dict_usable(e, d, r, "cover"); } else e->reached++;
    free(d);
}
static void s_train_legacy_finalize(Env* e) {
    size_t sizes[64]; unsigned ns; uint8_t* d = (uint8_t*)malloc(20000); size_t r; ZDICT_legacy_params_t lp; ZDICT_params_t zp;
    make_samples(e, sizes, &ns); memset(&lp, 0, sizeof lp); memset(&zp, 0, sizeof zp);
    arm(e, plan_get(e->p, "k_eff", 0), 0);
    if (plan_get(e->p, "train_opt", 0)) r = ZDICT_finalizeDictionary(d, 20000, e->dict, e->dict_size < 4000 ? e->dict_size : 4000, e->in, sizes, ns, zp);
    else r = ZDICT_trainFromBuffer_legacy(d, 20000, e->in, sizes, ns, lp);
    disarm(e);
    if (!ZDICT_isError(r)) { if (r > 20000) sim_violation("oom_bad_dict", "legacy/finalize returned size %zu > capacity", r); if (r) check_dict_usable(e, d, r, "legacy/finalize"); } else e->reached++;
    free(d);
}
static void s_default_alloc_ctx(Env* e) {
    /* default allocator (libc) contexts incl. MT: through the libc seam */
    ZSTD_CCtx* c; uint8_t* dst = (uint8_t*)malloc(OUTCAP(e)); size_t r = 0; int have = 0; int failed_once = 0;
    arm(e, plan_get(e->p, "k_eff", 0), 0);
    c = ZSTD_createCCtx();
    if (c) { set_basic(c, e, e->workers); r = ZSTD_compress2(c, dst, OUTCAP(e), e->in, e->in_size); have = 1;
        if (ZSTD_isError(r)) { e->reached++; failed_once = 1; sim_wrap_disarm(); ZSTD_CCtx_reset(c, ZSTD_reset_session_only); r = ZSTD_compress2(c, dst, OUTCAP(e), e->in, e->in_size); } }
    ZSTD_freeCCtx(c);
    disarm(e);
    if (have && ZSTD_isError(r)) sim_violation("oom_not_reusable", "default-allocator MT context after failure and reset: %s", ZSTD_getErrorName(r));
    if (have) check_rt(e, dst, r, "default-allocator MT compress2");
    (void)failed_once;
    free(dst);
}

typedef struct { const char* name; void (*fn)(Env*); int wrapmode; int needs_mt; int big; } SDesc;
static const SDesc k_scen[NS] = {
    { "cctx_oneshot", s_cctx_oneshot, 0, 0, 0 }, { "cctx_dict_stream", s_cctx_dict_stream, 0, 0, 0 }, { "cdict_copy", s_cdict_copy, 0, 0, 0 }, { "cdict_ref_stream", s_cdict_ref, 0, 0, 0 },
    { "mt_oneshot", s_mt_oneshot, 0, 1, 1 }, { "mt_stream_resize", s_mt_stream_resize, 0, 1, 1 }, { "dctx_oneshot", s_dctx_oneshot, 0, 0, 0 }, { "dstream_grow", s_dstream_grow, 0, 0, 0 },
    { "ddict", s_ddict, 0, 0, 0 }, { "multi_ddict", s_multiddict, 0, 0, 0 }, { "prefix_ldm", s_prefix_ldm, 0, 0, 0 }, { "mt_then_st", s_mt_then_st, 0, 1, 1 },
    { "train_fastcover", s_train_fastcover, 1, 0, 0 }, { "train_cover", s_train_cover, 1, 0, 0 }, { "train_legacy_finalize", s_train_legacy_finalize, 1, 0, 0 }, { "default_alloc_mt_ctx", s_default_alloc_ctx, 1, 1, 1 },
    { "mt_prefix_reuse", s_mt_prefix_reuse, 0, 1, 1 },
};

static void env_make(Env* e, const Plan* p) {
    Rng r; size_t n = (size_t)plan_get(p, "in_size", 10000); ZSTD_CCtx* c;
    memset(e, 0, sizeof *e); e->p = p;
    rng_seed(&r, (uint64_t)plan_get(p, "in_seed", 1), "input");
    e->in = (uint8_t*)malloc(n + 1); e->in_size = n; gen_input(&r, (int)plan_get(p, "in_kind", 0), e->in, n);
    e->level = (int)plan_get(p, "level", 3); e->workers = (int)plan_get(p, "workers", 2);
    if (plan_get(p, "use_dict", 0)) { size_t dn = (size_t)plan_get(p, "dict_size", 4096); e->dict = (uint8_t*)malloc(dn); e->dict_size = dn; gen_input(&r, (int)plan_get(p, "in_kind", 0), e->dict, dn); if (dn > 64 && n > 64) memcpy(e->dict + dn - 64, e->in, 64); }
    /* reference compressed forms (default allocator, no faults) */
    c = ZSTD_createCCtx(); e->comp = (uint8_t*)malloc(OUTCAP(e)); e->comp2 = (uint8_t*)malloc(OUTCAP(e));
    ZSTD_CCtx_setParameter(c, ZSTD_c_compressionLevel, e->level); ZSTD_CCtx_setParameter(c, ZSTD_c_windowLog, 20); ZSTD_CCtx_setParameter(c, ZSTD_c_checksumFlag, 1);
    if (e->dict) ZSTD_CCtx_loadDictionary(c, e->dict, e->dict_size);
    e->comp_size = ZSTD_compress2(c, e->comp, OUTCAP(e), e->in, e->in_size);
    ZSTD_CCtx_setParameter(c, ZSTD_c_windowLog, 12); ZSTD_CCtx_setParameter(c, ZSTD_c_contentSizeFlag, 0);
    e->comp2_size = ZSTD_compress2(c, e->comp2, OUTCAP(e), e->in, e->in_size);
    ZSTD_freeCCtx(c);
}
static void env_free(Env* e) { free(e->in); free(e->dict); free(e->comp); free(e->comp2); }

static long run_once(const Plan* p, int counting, long k, long k2) {
    Env e; int S = (int)plan_get(p, "S", 0) % NS; long n; SchedCfg cfg; SchedStats st; const char* err;
    if (S < 0) S = 0;
    env_make(&e, p); e.counting = counting; e.wrapmode = k_scen[S].wrapmode;
    sim_alloc_reset(); sim_wrap_reset();
    sim_sched_cfg_from_plan(&cfg, p); sim_sched_reset(&cfg);
    sim_hooks_reset(p->seed); if (plan_get(p, "stall_site", 0)) sim_hook_set_stall((int)plan_get(p, "stall_site", 0), (long)plan_get(p, "stall_nth", 1), (long)plan_get(p, "stall_len", 1000));
    e.k = k; e.k2 = k2;
    if (!e.wrapmode) arm(&e, k, k2);
    else { /* trainers arm themselves around the call */ }
    k_scen[S].fn(&e);
    disarm(&e);
    n = calls(&e) - e.base;
    sim_sched_finish(&st);
    if (!e.wrapmode) {
        if (sim_alloc_live_blocks() != 0) { char b[200]; sim_alloc_describe_live(b, sizeof b); sim_violation("oom_leak", "%s k=%ld: %ld block(s) obtained from the custom allocator never returned: %s", k_scen[S].name, k, sim_alloc_live_blocks(), b); }
        if ((err = sim_alloc_check()) != NULL) sim_violation("oom_heap_corruption", "%s k=%ld: %s", k_scen[S].name, k, err);
    } else if (sim_wrap_live() != 0) sim_violation("oom_leak", "%s k=%ld: %ld libc block(s) allocated during the call never freed", k_scen[S].name, k, sim_wrap_live());
    if (!counting) { sim_event("S=%s k=%ld k2=%ld allocs=%ld failed=%ld reached_error=%ld", k_scen[S].name, k, k2, n, e.wrapmode ? sim_wrap_failed() : sim_alloc_failed(), e.reached);
        if ((e.wrapmode ? sim_wrap_failed() : sim_alloc_failed()) > 0) { char pb[64]; sim_mark_nontrivial(); snprintf(pb, sizeof pb, "c13.%s.fault_fired", k_scen[S].name); sim_probe(pb); }
        if (e.reached) sim_probe("c13.api_reported_error"); }
    env_free(&e);
    return n;
}

static void gen(Plan* p, Rng* r0, int tier, long idx) {
    int S = (int)(idx % NS); long j = idx / NS; long v = j / KMOD; long n; Rng r; char pb[64];
    (void)r0;
    rng_seed(&r, sim_mix64(g_sim_root * 1000003ULL + (uint64_t)S * 7919 + (uint64_t)v), "c13variant");
    plan_set(p, "S", S); plan_set(p, "variant", v);
    plan_set(p, "in_kind", (int64_t)rng_below(&r, GEN_NKINDS));
    plan_set(p, "in_seed", (int64_t)(rng_u64(&r) >> 2));
    plan_set(p, "in_size", k_scen[S].big ? rng_range(&r, 600 << 10, tier ? (2500 << 10) : (1400 << 10)) : rng_range(&r, 2000, 150000));
    plan_set(p, "level", rng_range(&r, 1, k_scen[S].big ? 4 : 9));
    plan_set(p, "workers", rng_range(&r, 2, 3));
    plan_set(p, "use_dict", (S == 1 || S == 2 || S == 3 || S == 8 || S == 9 || S == 10 || S == 14) ? 1 : (int64_t)rng_below(&r, 2));
    plan_set(p, "dict_size", rng_range(&r, 300, 30000));
    if (k_scen[S].needs_mt ? (v & 1) : rng_coin(&r, 1, 4)) plan_set(p, "ldm", 1);   /* MT scenarios alternate LDM on/off by variant: workers allocate sequence buffers only with LDM */
    if (rng_coin(&r, 1, 3)) plan_set(p, "wlog", rng_range(&r, 12, 22));
    plan_set(p, "train_opt", (int64_t)rng_below(&r, 2));
    /* MT scenarios, variants 2,3 mod 4: one worker is descheduled right after taking its n-th job / right after its serial step, so
     * that the failing allocation meets jobs that are still waiting for their turn (stalled-thread fault, DESIGN 11.2) */
    if (k_scen[S].needs_mt && (v & 2)) { plan_set(p, "stall_site", 1 + (int64_t)rng_below(&r, 2)); plan_set(p, "stall_nth", 1 + (int64_t)rng_below(&r, 5)); plan_set(p, "stall_len", rng_range(&r, 200, 8000));
        /* with long-distance matching: enough input for the round buffer to wrap (window 1 MiB + (workers + 3) jobs of 512 KiB) */
        if (plan_get(p, "ldm", 0)) { plan_set(p, "wlog", 20); plan_set(p, "in_size", rng_range(&r, 2900 << 10, 4600 << 10)); plan_set(p, "level", rng_range(&r, 1, 3)); } }
    plan_set(p, "train_threads", rng_coin(&r, 1, 2) ? 1 : rng_range(&r, 2, 3));
    { Rng rs; rng_seed(&rs, sim_mix64(g_sim_root + (uint64_t)S * 31 + (uint64_t)v * 17), "c13sched"); sim_sched_plan_defaults(p, &rs, 0); }
    plan_set(p, "k_eff", 0);
    n = run_once(p, 1, 0, 0);     /* counting pass under this plan's own schedule */
    if (n < 1) n = 1;
    plan_set(p, "allocs", n);
    plan_set(p, "k_eff", 1 + (j % KMOD) % n);
    if (tier && (v % 3) == 2) plan_set(p, "k2", 1 + (int64_t)rng_below(r0, (uint64_t)n + 4));
    snprintf(pb, sizeof pb, "c13.%s.allocs", k_scen[S].name); (void)pb;
}
static void exec(const Plan* p) {
    long k = (long)plan_get(p, "k_eff", 1), k2 = (long)plan_get(p, "k2", 0); int S = (int)plan_get(p, "S", 0) % NS; char pb[64];
    if (S < 0) S = 0;
    run_once(p, 0, k, k2);
    snprintf(pb, sizeof pb, "c13.%s.runs", k_scen[S].name); sim_probe(pb);
    snprintf(pb, sizeof pb, "c13.%s.allocs_sum", k_scen[S].name); sim_probe_n(pb, (long)plan_get(p, "allocs", 0));
    snprintf(pb, sizeof pb, "c13.%s.allocs_last", k_scen[S].name); (void)pb;
}
const Scenario scen_c13oom = { "c13oom", "C13", gen, exec };
