/* c14_budget.c — C14: memory budgets.  The allocator seam is both monitor and enforcer:
 *  (i)  static contexts: a guard-zoned block of EXACTLY estimate*() bytes, with the libc seam armed so that ANY allocation during
 *       the covered operations is recorded: init must succeed, every covered operation must succeed and round-trip, no allocator
 *       call, no guard byte touched.  Variants: CCtx one-shot, CStream streaming (with flushes), *_usingCParams with exact
 *       cParams, DCtx, DStream sized from the frame / from a window limit, static CDict / DDict.
 *  (ii) heap mode under accounting: a streaming decoder limited to windowLogMax=W refuses frames with a larger window
 *       (frameParameter_windowTooLarge) before allocating for them, and otherwise never holds more than
 *       ZSTD_estimateDStreamSize(windowSize) (+ dictionary) from the caller's allocator.
 *  (iii) ZSTD_sizeof_*() never under-reports what the accounting allocator sees as live. */
#include "../io/sess.h"
#include "scenarios.h"

static int eff(int l) { return l == 0 ? ZSTD_CLEVEL_DEFAULT : l; }

static void gen(Plan* p, Rng* r, int tier, long idx) {
    int L; (void)idx;
    sess_gen_input_params(p, r, tier ? (600u << 10) : (200u << 10));
    L = rng_coin(r, 1, 6) ? (int)rng_range(r, -5, -1) : (int)rng_range(r, 1, plan_get(p, "in_size", 0) > (100 << 10) ? 12 : 22);
    plan_set(p, "L", L);
    plan_set(p, "l", L < 0 ? L : (rng_coin(r, 1, 3) ? L : rng_coin(r, 1, 5) && L >= 3 ? 0 : rng_range(r, 1, L)));
    plan_set(p, "variant", (int64_t)(idx % 9));
    plan_set(p, "wlog", rng_range(r, 10, 22)); plan_set(p, "wlimit", rng_range(r, 10, 24));
    plan_set(p, "strategy", rng_range(r, 1, plan_get(p, "in_size", 0) > (100 << 10) ? 6 : 9)); plan_set(p, "hlog", rng_range(r, 6, 18)); plan_set(p, "clog", rng_range(r, 6, 18)); plan_set(p, "slog", rng_range(r, 1, 5)); plan_set(p, "mml", rng_range(r, 3, 7)); plan_set(p, "tlen", rng_range(r, 0, 128));
    plan_set(p, "chunk", (int64_t)(1 + rng_chunk(r, 1 << 18, 1 << 14)));
    plan_set(p, "dict_kind", rng_range(r, 1, 2)); plan_set(p, "dict_size", (int64_t)(64 + rng_size(r, 40 << 10))); plan_set(p, "dict_seed", (int64_t)(rng_u64(r) >> 2));
}

static void* wk_new(size_t n) { return sim_buf_new(n + 8); }   /* sim_buf_new is 16-byte aligned */
static void no_alloc_begin(void) { sim_wrap_arm(0, 0); }
static void no_alloc_end(const char* what) { long c; sim_wrap_disarm(); c = sim_wrap_calls(); if (c != 0) sim_violation("static_context_allocates", "%s: %ld libc allocation(s) while operating a context placed in caller-provided memory", what, c); }
static void guards(void* w, const char* what) { const char* e = sim_buf_check(w); if (e) sim_violation("static_workspace_overrun", "%s: %s", what, e); }
static void check_rt(Sess* s, const void* c, size_t cs, int use_dict, const char* what) {
    uint8_t* o = (uint8_t*)malloc(s->in_size + 1); ZSTD_DCtx* d = ZSTD_createDCtx(); size_t r; ZSTD_DCtx_setParameter(d, ZSTD_d_windowLogMax, 31);
    r = use_dict ? ZSTD_decompress_usingDict(d, o, s->in_size, c, cs, s->dict, s->dict_size) : ZSTD_decompressDCtx(d, o, s->in_size, c, cs);
    if (ZSTD_isError(r) || r != s->in_size || (r && memcmp(o, s->in, r))) sim_violation("roundtrip_error", "%s: output does not round-trip: %s", what, ZSTD_isError(r) ? ZSTD_getErrorName(r) : "mismatch");
    ZSTD_freeDCtx(d); free(o);
}
static size_t stream_all(ZSTD_CCtx* c, Sess* s, uint8_t* dst, size_t cap, size_t chunk) {
    ZSTD_inBuffer in; ZSTD_outBuffer out; size_t pos = 0, r = 1; long g = 0; out.dst = dst; out.size = cap; out.pos = 0;
    if (chunk < 16) chunk = 16;   /* a single output buffer of bound size: flush only with chunks that cannot exceed it */
    for (;;) { size_t n = s->in_size - pos < chunk ? s->in_size - pos : chunk; int last = pos + n == s->in_size; in.src = s->in + pos; in.size = n; in.pos = 0;
        r = ZSTD_compressStream2(c, &out, &in, last ? ZSTD_e_end : ((g % 4) == 3 && chunk >= 2048 ? ZSTD_e_flush : ZSTD_e_continue)); if (ZSTD_isError(r)) return r; pos += in.pos; g++; if (last && in.pos == n && r == 0) break; if (g > 10000000) return (size_t)-ZSTD_error_GENERIC; }
    return out.pos;
}

static void exec(const Plan* p) {
    Sess s; int const L = (int)plan_get(p, "L", 3), l = (int)plan_get(p, "l", 3); int const variant = (int)plan_get(p, "variant", 0) % 9; size_t cap; uint8_t* dst; size_t r; const char* e;
    ZSTD_compressionParameters cp;
    sess_init(&s); sess_make_input(&s, p); sess_make_dict(&s, p);
    cap = ZSTD_compressBound(s.in_size) + 4096 + s.in_size / 64; dst = (uint8_t*)malloc(cap);
    cp.windowLog = (unsigned)plan_get(p, "wlog", 17); cp.chainLog = (unsigned)plan_get(p, "clog", 14); cp.hashLog = (unsigned)plan_get(p, "hlog", 14); cp.searchLog = (unsigned)plan_get(p, "slog", 2); cp.minMatch = (unsigned)plan_get(p, "mml", 4); cp.targetLength = (unsigned)plan_get(p, "tlen", 16); cp.strategy = (ZSTD_strategy)plan_get(p, "strategy", 3);
    cp = ZSTD_adjustCParams(cp, 0, 0);
    if (eff(l) > eff(L) && L > 0) { sess_free(&s); free(dst); return; }   /* outside the claim */
    switch (variant) {
    case 0: {   /* estimateCCtxSize(L) + one-shot at l <= L */
        size_t const need = ZSTD_estimateCCtxSize(L); void* w = wk_new(need); ZSTD_CCtx* c;
        no_alloc_begin(); c = ZSTD_initStaticCCtx(w, need);
        if (!c) sim_violation("static_init_failed", "initStaticCCtx(estimateCCtxSize(%d)=%zu) returns NULL", L, need);
        r = ZSTD_compressCCtx(c, dst, cap, s.in, s.in_size, l); no_alloc_end("static CCtx one-shot");
        if (ZSTD_isError(r)) sim_violation("estimate_insufficient", "estimateCCtxSize(%d) does not cover compressCCtx at level %d on %zu bytes: %s", L, l, s.in_size, ZSTD_getErrorName(r));
        guards(w, "static CCtx"); check_rt(&s, dst, r, 0, "static CCtx one-shot");
        sim_buf_free(w); sim_probe("c14.static_cctx"); break; }
    case 1: {   /* estimateCStreamSize(L) + streaming at l */
        size_t const need = ZSTD_estimateCStreamSize(L); void* w = wk_new(need); ZSTD_CStream* c;
        no_alloc_begin(); c = ZSTD_initStaticCStream(w, need);
        if (!c) sim_violation("static_init_failed", "initStaticCStream(estimateCStreamSize(%d)=%zu) returns NULL", L, need);
        ZSTD_CCtx_setParameter(c, ZSTD_c_compressionLevel, l);
        r = stream_all(c, &s, dst, cap, (size_t)plan_get(p, "chunk", 4096)); no_alloc_end("static CStream");
        if (ZSTD_isError(r)) sim_violation("estimate_insufficient", "estimateCStreamSize(%d) does not cover streaming at level %d: %s", L, l, ZSTD_getErrorName(r));
        guards(w, "static CStream"); check_rt(&s, dst, r, 0, "static CStream"); sim_buf_free(w); sim_probe("c14.static_cstream"); break; }
    case 2: {   /* estimateCCtxSize_usingCParams(c) + exactly c */
        size_t const need = ZSTD_estimateCCtxSize_usingCParams(cp); void* w = wk_new(need); ZSTD_CCtx* c; ZSTD_parameters zp; memset(&zp, 0, sizeof zp); zp.cParams = cp; zp.fParams.contentSizeFlag = 1;
        no_alloc_begin(); c = ZSTD_initStaticCCtx(w, need);
        if (!c) sim_violation("static_init_failed", "initStaticCCtx(estimateCCtxSize_usingCParams) returns NULL");
        r = ZSTD_compress_advanced(c, dst, cap, s.in, s.in_size, NULL, 0, zp); no_alloc_end("static CCtx usingCParams");
        if (ZSTD_isError(r)) sim_violation("estimate_insufficient", "estimateCCtxSize_usingCParams(w%u c%u h%u s%u m%u strat%d) does not cover compression with exactly these parameters: %s", cp.windowLog, cp.chainLog, cp.hashLog, cp.searchLog, cp.minMatch, (int)cp.strategy, ZSTD_getErrorName(r));
        guards(w, "static CCtx usingCParams"); check_rt(&s, dst, r, 0, "static CCtx usingCParams"); sim_buf_free(w); sim_probe("c14.static_cctx_cparams"); break; }
    case 3: {   /* estimateCStreamSize_usingCParams(c) + streaming with exactly c */
        size_t const need = ZSTD_estimateCStreamSize_usingCParams(cp); void* w = wk_new(need); ZSTD_CStream* c;
        no_alloc_begin(); c = ZSTD_initStaticCStream(w, need);
        if (!c) sim_violation("static_init_failed", "initStaticCStream(estimateCStreamSize_usingCParams) returns NULL");
        ZSTD_CCtx_setParameter(c, ZSTD_c_windowLog, (int)cp.windowLog); ZSTD_CCtx_setParameter(c, ZSTD_c_chainLog, (int)cp.chainLog); ZSTD_CCtx_setParameter(c, ZSTD_c_hashLog, (int)cp.hashLog); ZSTD_CCtx_setParameter(c, ZSTD_c_searchLog, (int)cp.searchLog); ZSTD_CCtx_setParameter(c, ZSTD_c_minMatch, (int)cp.minMatch); ZSTD_CCtx_setParameter(c, ZSTD_c_targetLength, (int)cp.targetLength); ZSTD_CCtx_setParameter(c, ZSTD_c_strategy, (int)cp.strategy);
        r = stream_all(c, &s, dst, cap, (size_t)plan_get(p, "chunk", 4096)); no_alloc_end("static CStream usingCParams");
        if (ZSTD_isError(r)) sim_violation("estimate_insufficient", "estimateCStreamSize_usingCParams(w%u c%u h%u s%u m%u strat%d) does not cover streaming with exactly these parameters: %s", cp.windowLog, cp.chainLog, cp.hashLog, cp.searchLog, cp.minMatch, (int)cp.strategy, ZSTD_getErrorName(r));
        guards(w, "static CStream usingCParams"); check_rt(&s, dst, r, 0, "static CStream usingCParams"); sim_buf_free(w); sim_probe("c14.static_cstream_cparams"); break; }
    case 4: {   /* static DCtx / static DStream sized from the frame */
        ZSTD_CCtx* c = ZSTD_createCCtx(); size_t cs; uint8_t* out = (uint8_t*)sim_buf_new(s.in_size);
        ZSTD_CCtx_setParameter(c, ZSTD_c_compressionLevel, l); ZSTD_CCtx_setParameter(c, ZSTD_c_windowLog, (int)plan_get(p, "wlog", 17)); if (plan_get(p, "chunk", 0) & 1) ZSTD_CCtx_setParameter(c, ZSTD_c_contentSizeFlag, 0);
        cs = stream_all(c, &s, dst, cap, 1 << 17); ZSTD_freeCCtx(c); if (ZSTD_isError(cs)) sim_violation("compress_error", "%s", ZSTD_getErrorName(cs));
        { size_t const need = ZSTD_estimateDCtxSize(); void* w = wk_new(need); ZSTD_DCtx* d; no_alloc_begin(); d = ZSTD_initStaticDCtx(w, need); if (!d) sim_violation("static_init_failed", "initStaticDCtx(estimateDCtxSize) returns NULL");
          ZSTD_DCtx_setParameter(d, ZSTD_d_windowLogMax, 31); r = ZSTD_decompressDCtx(d, out, s.in_size, dst, cs); no_alloc_end("static DCtx");
          if (ZSTD_isError(r) || r != s.in_size || (r && memcmp(out, s.in, r))) sim_violation("estimate_insufficient", "estimateDCtxSize does not cover one-shot decompression: %s", ZSTD_isError(r) ? ZSTD_getErrorName(r) : "mismatch"); guards(w, "static DCtx"); sim_buf_free(w); }
        { size_t const need = ZSTD_estimateDStreamSize_fromFrame(dst, cs); void* w; ZSTD_DStream* d; ZSTD_inBuffer in; ZSTD_outBuffer o; size_t pos = 0, chunk = (size_t)plan_get(p, "chunk", 4096); long g = 0;
          if (ZSTD_isError(need)) sim_violation("estimate_error", "estimateDStreamSize_fromFrame fails on a valid frame: %s", ZSTD_getErrorName(need));
          w = wk_new(need); no_alloc_begin(); d = ZSTD_initStaticDStream(w, need); if (!d) sim_violation("static_init_failed", "initStaticDStream(estimateDStreamSize_fromFrame=%zu) returns NULL", need);
          ZSTD_DCtx_setParameter(d, ZSTD_d_windowLogMax, 31); o.dst = out; o.size = s.in_size; o.pos = 0; r = 1;
          while (pos < cs) { size_t n = cs - pos < chunk ? cs - pos : chunk; size_t ob = o.pos; uint8_t tmp[4096]; ZSTD_outBuffer o2; in.src = dst + pos; in.size = n; in.pos = 0; o2.dst = tmp; o2.size = sizeof tmp; o2.pos = 0;
              /* small bounce buffer: forces the decoder to use its own window buffer */
              r = ZSTD_decompressStream(d, &o2, &in); if (ZSTD_isError(r)) break; if (o.pos + o2.pos > s.in_size) { r = (size_t)-ZSTD_error_dstSize_tooSmall; break; } memcpy(out + o.pos, tmp, o2.pos); o.pos += o2.pos; pos += in.pos; (void)ob; if (++g > 50000000) break; }
          while (!ZSTD_isError(r) && r != 0 && g++ < 50000000) { uint8_t tmp[4096]; ZSTD_outBuffer o2; in.src = dst + cs; in.size = 0; in.pos = 0; o2.dst = tmp; o2.size = sizeof tmp; o2.pos = 0; r = ZSTD_decompressStream(d, &o2, &in); if (ZSTD_isError(r) || o2.pos == 0) break; memcpy(out + o.pos, tmp, o2.pos); o.pos += o2.pos; }
          no_alloc_end("static DStream");
          if (ZSTD_isError(r) || o.pos != s.in_size || (o.pos && memcmp(out, s.in, o.pos))) sim_violation("estimate_insufficient", "estimateDStreamSize_fromFrame (%zu) does not cover streaming decompression of that frame: %s", need, ZSTD_isError(r) ? ZSTD_getErrorName(r) : "mismatch");
          guards(w, "static DStream"); sim_buf_free(w); }
        sim_buf_free(out); sim_probe("c14.static_dctx_dstream"); break; }
    case 5: {   /* static CDict / DDict */
        ZSTD_compressionParameters const dcp = ZSTD_getCParams(eff(l), 0, s.dict_size); size_t const needC = ZSTD_estimateCDictSize_advanced(s.dict_size, dcp, ZSTD_dlm_byCopy), needD = ZSTD_estimateDDictSize(s.dict_size, ZSTD_dlm_byCopy);
        void* wc = wk_new(needC); void* wd = wk_new(needD); const ZSTD_CDict* cd; const ZSTD_DDict* dd; ZSTD_CCtx* c = ZSTD_createCCtx(); ZSTD_DCtx* d = ZSTD_createDCtx(); uint8_t* out = (uint8_t*)malloc(s.in_size + 1);
        no_alloc_begin(); cd = ZSTD_initStaticCDict(wc, needC, s.dict, s.dict_size, ZSTD_dlm_byCopy, ZSTD_dct_auto, dcp); dd = ZSTD_initStaticDDict(wd, needD, s.dict, s.dict_size, ZSTD_dlm_byCopy, ZSTD_dct_auto); no_alloc_end("static CDict/DDict init");
        if (!cd) sim_violation("static_init_failed", "initStaticCDict(estimateCDictSize_advanced=%zu, dict %zu bytes) returns NULL", needC, s.dict_size);
        if (!dd) sim_violation("static_init_failed", "initStaticDDict(estimateDDictSize=%zu) returns NULL", needD);
        r = ZSTD_compress_usingCDict(c, dst, cap, s.in, s.in_size, cd); if (ZSTD_isError(r)) sim_violation("estimate_insufficient", "static CDict unusable: %s", ZSTD_getErrorName(r));
        { size_t q = ZSTD_decompress_usingDDict(d, out, s.in_size, dst, r, dd); if (ZSTD_isError(q) || q != s.in_size || (q && memcmp(out, s.in, q))) sim_violation("roundtrip_error", "static CDict/DDict round trip: %s", ZSTD_isError(q) ? ZSTD_getErrorName(q) : "mismatch"); }
        guards(wc, "static CDict"); guards(wd, "static DDict");
        ZSTD_freeCCtx(c); ZSTD_freeDCtx(d); free(out); sim_buf_free(wc); sim_buf_free(wd); sim_probe("c14.static_dicts"); break; }
    case 6: case 7: {   /* heap DStream under accounting: window limit */
        ZSTD_CCtx* c = ZSTD_createCCtx(); size_t cs; int const wlog = (int)plan_get(p, "wlog", 17), wlim = (int)plan_get(p, "wlimit", 20); ZSTD_DCtx* d; DecResult dr; Plan dp; ZSTD_frameHeader zfh; size_t budget;
        ZSTD_CCtx_setParameter(c, ZSTD_c_compressionLevel, eff(l) > 9 ? 3 : l); ZSTD_CCtx_setParameter(c, ZSTD_c_windowLog, wlog); ZSTD_CCtx_setParameter(c, ZSTD_c_contentSizeFlag, 0);
        if (variant == 7) ZSTD_CCtx_loadDictionary(c, s.dict, s.dict_size);
        cs = stream_all(c, &s, dst, cap, 1 << 16); ZSTD_freeCCtx(c); if (ZSTD_isError(cs)) sim_violation("compress_error", "%s", ZSTD_getErrorName(cs));
        ZSTD_getFrameHeader(&zfh, dst, cs);
        sim_alloc_reset();
        d = ZSTD_createDCtx_advanced(sess_cmem()); ZSTD_DCtx_setParameter(d, ZSTD_d_windowLogMax, wlim);
        if (variant == 7) ZSTD_DCtx_loadDictionary(d, s.dict, s.dict_size);
        plan_init(&dp, "x", 1); plan_set(&dp, "dfin_in", plan_get(p, "chunk", 4096)); plan_set(&dp, "dfin_out", 1000);
        sess_run_dhist(&dp, d, dst, cs, 0, 0, &dr); plan_free(&dp);
        if (zfh.windowSize > ((unsigned long long)1 << wlim)) {
            if (!dr.err) sim_violation("window_limit_ignored", "frame window %llu > limit 2^%d but streaming decompression proceeds", zfh.windowSize, wlim);
            if (ZSTD_getErrorCode(dr.err) != ZSTD_error_frameParameter_windowTooLarge) sim_violation("window_limit_wrong_error", "frame window above the limit is reported as: %s", ZSTD_getErrorName(dr.err));
            if (sim_alloc_peak_bytes() > ZSTD_estimateDStreamSize((size_t)1 << wlim) + (variant == 7 ? s.dict_size * 2 + (64u << 10) : 0) + 4096) sim_violation("allocation_before_refusal", "decoder allocated %zu bytes for a frame it refuses (limit 2^%d)", sim_alloc_peak_bytes(), wlim);
            sim_probe("c14.window_refused");
        } else {
            if (dr.err || dr.out_size != s.in_size || (dr.out_size && memcmp(dr.out, s.in, dr.out_size))) sim_violation("roundtrip_error", "streaming decode within the window limit fails: %s", dr.err ? ZSTD_getErrorName(dr.err) : "mismatch");
            budget = ZSTD_estimateDStreamSize((size_t)zfh.windowSize) + (variant == 7 ? ZSTD_estimateDDictSize(s.dict_size, ZSTD_dlm_byCopy) : 0);
            if (sim_alloc_peak_bytes() > budget) sim_violation("dstream_over_budget", "streaming decoder held %zu bytes from the allocator, documented bound estimateDStreamSize(window %llu)%s = %zu", sim_alloc_peak_bytes(), zfh.windowSize, variant == 7 ? " + DDict" : "", budget);
            if (ZSTD_sizeof_DCtx(d) < sim_alloc_live_bytes()) sim_violation("sizeof_underreports", "sizeof_DCtx %zu < %zu bytes live in the allocator", ZSTD_sizeof_DCtx(d), sim_alloc_live_bytes());
            sim_probe("c14.window_accepted");
        }
        dec_result_free(&dr);
        /* the limit holds on a REUSED decoder too: with buffers already large enough from an accepted frame, lowering the limit
         * (or meeting a larger window) must still refuse - the check may not hide behind "no reallocation needed" */
        {   int const wl2 = 18 + (int)(plan_get(p, "chunk", 4096) % 5), lim2 = 14 + (int)(plan_get(p, "chunk", 4096) % (wl2 - 14)); ZSTD_CCtx* c2 = ZSTD_createCCtx(); size_t cs2; Plan dp2; DecResult d2;
            ZSTD_CCtx_setParameter(c2, ZSTD_c_compressionLevel, 1); ZSTD_CCtx_setParameter(c2, ZSTD_c_windowLog, wl2); ZSTD_CCtx_setParameter(c2, ZSTD_c_contentSizeFlag, 0);
            if (variant == 7) ZSTD_CCtx_loadDictionary(c2, s.dict, s.dict_size);
            cs2 = stream_all(c2, &s, dst, cap, 1 << 16); ZSTD_freeCCtx(c2);
            if (!ZSTD_isError(cs2)) {
                ZSTD_DCtx_reset(d, ZSTD_reset_session_only); ZSTD_DCtx_setParameter(d, ZSTD_d_windowLogMax, 31);
                plan_init(&dp2, "x", 1); plan_set(&dp2, "dfin_in", 3000); plan_set(&dp2, "dfin_out", 1000); sess_run_dhist(&dp2, d, dst, cs2, 0, 0, &d2);
                if (d2.err || d2.out_size != s.in_size) sim_violation("roundtrip_error", "reused decoder, window 2^%d under limit 31: %s", wl2, d2.err ? ZSTD_getErrorName(d2.err) : "size differs");
                dec_result_free(&d2);
                ZSTD_DCtx_reset(d, ZSTD_reset_session_only); ZSTD_DCtx_setParameter(d, ZSTD_d_windowLogMax, lim2);
                sess_run_dhist(&dp2, d, dst, cs2, 0, 0, &d2); plan_free(&dp2);
                {   ZSTD_frameHeader zfh2; ZSTD_getFrameHeader(&zfh2, dst, cs2);
                    if (zfh2.windowSize > ((unsigned long long)1 << lim2)) {
                        if (!d2.err) sim_violation("window_limit_ignored", "reused decoder (buffers already sized for this frame): frame window %llu > limit 2^%d but streaming decompression proceeds", zfh2.windowSize, lim2);
                        if (ZSTD_getErrorCode(d2.err) != ZSTD_error_frameParameter_windowTooLarge) sim_violation("window_limit_wrong_error", "reused decoder: frame window above the limit is reported as: %s", ZSTD_getErrorName(d2.err));
                        sim_probe("c14.window_refused_on_reused_decoder");
                    } else if (d2.err || d2.out_size != s.in_size) sim_violation("roundtrip_error", "reused decoder, frame window %llu within limit 2^%d: %s", zfh2.windowSize, lim2, d2.err ? ZSTD_getErrorName(d2.err) : "size differs"); }
                dec_result_free(&d2);
            }
        }
        ZSTD_freeDCtx(d); break; }
    default: {   /* sizeof_* vs accounting over a compression history */
        ZSTD_CCtx* c; ZSTD_CDict* cd; int k;
        sim_alloc_reset(); c = ZSTD_createCCtx_advanced(sess_cmem());
        for (k = 0; k < 3; k++) {
            ZSTD_CCtx_reset(c, ZSTD_reset_session_and_parameters); ZSTD_CCtx_setParameter(c, ZSTD_c_compressionLevel, k == 0 ? l : (l + k * 3) % 13); if (k == 1) ZSTD_CCtx_setParameter(c, ZSTD_c_enableLongDistanceMatching, 1); if (k == 2) ZSTD_CCtx_loadDictionary(c, s.dict, s.dict_size);
            r = stream_all(c, &s, dst, cap, (size_t)plan_get(p, "chunk", 4096)); if (ZSTD_isError(r)) sim_violation("compress_error", "%s", ZSTD_getErrorName(r));
            if (ZSTD_sizeof_CCtx(c) < sim_alloc_live_bytes()) sim_violation("sizeof_underreports", "after frame %d: sizeof_CCtx %zu < %zu bytes live in the allocator", k, ZSTD_sizeof_CCtx(c), sim_alloc_live_bytes());
        }
        ZSTD_freeCCtx(c);
        sim_alloc_reset(); cd = ZSTD_createCDict_advanced(s.dict, s.dict_size, ZSTD_dlm_byCopy, ZSTD_dct_auto, ZSTD_getCParams(eff(l), 0, s.dict_size), sess_cmem());
        if (cd && ZSTD_sizeof_CDict(cd) < sim_alloc_live_bytes()) sim_violation("sizeof_underreports", "sizeof_CDict %zu < %zu bytes live", ZSTD_sizeof_CDict(cd), sim_alloc_live_bytes());
        ZSTD_freeCDict(cd); sim_probe("c14.sizeof_histories"); break; }
    }
    sim_mark_nontrivial();
    free(dst); sess_buf_cache_drop();
    if (sim_alloc_live_blocks() != 0) sim_violation("leak", "%ld allocator block(s) live at end", sim_alloc_live_blocks());
    if ((e = sim_alloc_check()) != NULL) sim_violation("heap_corruption", "%s", e);
    sess_free(&s);
}
const Scenario scen_c14budget = { "c14budget", "C14", gen, exec };
