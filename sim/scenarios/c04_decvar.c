/* c04_decvar.c — C04 (every decoding path yields the specified output) and C03 (decoding untrusted bytes is safe,
 * bounded and terminating).
 * The decode path is what the simulator controls: entry point (one-shot, streaming under a seeded segmentation,
 * stable output buffer, buffer-less, in-place, DDict cold/warm, multi-frame), decoder parameters
 * (disableHuffmanAssembly, windowLogMax) and — through the guarded coins in /repo — the internal variant the
 * heuristics would not pick (Huffman X1<->X2, prefetching sequence decoder, BMI2 off).
 *   c04decvar: frames accepted by the independent reference decoder R (compressor output under random parameters,
 *              spec-valid exotic frames from tests/decodecorpus.c, legacy v0.5-0.7 frames, wire-faulted frames R still
 *              accepts): every path must succeed and equal R's bytes (legacy: equal one-shot output).
 *   c03fuzz  : fault sequences on valid traffic (bit flips, byte smears, truncation, duplication, splices, zero pages,
 *              garbage, biased to header/table/length fields) fed to every entry point incl. inspectors and legacy
 *              decoders: no sanitizer report, return is an error or <= capacity, guards intact, bounded calls. */
#include "../io/sess.h"
#include "scenarios.h"
#include "zstd_verif.h"
#include "zstd_legacy.h"
#include <unistd.h>

extern const char* const COMPRESSED; extern size_t const COMPRESSED_SIZE; extern const char* const EXPECTED;   /* tests/legacy.c */

typedef struct { uint8_t* f; size_t n; uint8_t* dict; size_t dict_size; int magicless; int legacy; uint8_t* R; size_t rn; int have_R; } Frame;

static uint8_t* read_file(const char* path, size_t* n) {
    FILE* f = fopen(path, "rb"); uint8_t* b; long sz;
    if (!f) return NULL;
    fseek(f, 0, SEEK_END); sz = ftell(f); fseek(f, 0, SEEK_SET);
    b = (uint8_t*)malloc((size_t)sz + 1); *n = fread(b, 1, (size_t)sz, f); fclose(f);
    return b;
}
/* ---- frame sources ---- */
static int load_corpus_frame(const Plan* p, Frame* fr) {
    const char* dir = getenv("SIM_CORPUS_DIR"); char path[512]; long n = (long)plan_get(p, "corpus_n", 0), i = (long)plan_get(p, "corpus_idx", 0);
    if (!dir || n <= 0) return -1;
    snprintf(path, sizeof path, "%s/c%lld_%ld/z%06ld.zst", dir, (long long)plan_get(p, "corpus_seed", 0), n, i % n);
    fr->f = read_file(path, &fr->n);
    return fr->f ? 0 : -1;
}
static int load_legacy_frame(const Plan* p, Frame* fr) {
    /* tests/legacy.c concatenates one frame per historical version; pick the k-th frame the library can size */
    size_t pos = 0; int want = (int)plan_get(p, "legacy_idx", 0), k = 0;
    while (pos + 8 < COMPRESSED_SIZE) {
        size_t const fs = ZSTD_findFrameCompressedSize(COMPRESSED + pos, COMPRESSED_SIZE - pos);
        if (ZSTD_isError(fs) || fs == 0) { pos++; continue; }
        if (ZSTD_isLegacy(COMPRESSED + pos, COMPRESSED_SIZE - pos) >= 5) { if (k == want % 3) { fr->f = (uint8_t*)malloc(fs); memcpy(fr->f, COMPRESSED + pos, fs); fr->n = fs; fr->legacy = 1; return 0; } k++; }
        pos += fs;
    }
    return -1;
}
static void make_compressor_frame(const Plan* p, Sess* s, Frame* fr) {
    ZSTD_CCtx* c = ZSTD_createCCtx(); size_t cap, r;
    sess_make_input(s, p); sess_make_dict(s, p);
    sess_apply_cparams(c, p); ZSTD_CCtx_setParameter(c, ZSTD_c_nbWorkers, 0);
    if (s->dict) ZSTD_CCtx_loadDictionary(c, s->dict, s->dict_size);
    cap = ZSTD_compressBound(s->in_size) + 64; fr->f = (uint8_t*)malloc(cap);
    if (plan_get(p, "two_frames", 0) && s->in_size > 2) { size_t h = s->in_size / 2; r = ZSTD_compress2(c, fr->f, cap, s->in, h); if (!ZSTD_isError(r)) { size_t r2 = ZSTD_compress2(c, fr->f + r, cap - r, s->in + h, s->in_size - h); r = ZSTD_isError(r2) ? r2 : r + r2; } }
    else r = ZSTD_compress2(c, fr->f, cap, s->in, s->in_size);
    if (ZSTD_isError(r)) sim_violation("compress_error", "compress2: %s", ZSTD_getErrorName(r));
    fr->n = r; fr->magicless = sess_get_cparam(p, "format", 0) == 1;
    if (s->dict) { fr->dict = s->dict; fr->dict_size = s->dict_size; }
    ZSTD_freeCCtx(c);
}
/* ---- a forged peer: frames assembled bit by bit, not by the compressor.  One to three blocks; each a compressed block with
 * a Raw / RLE literals section of a chosen size (biased beyond 64 KiB, where the decoder splits its literal buffer, and to the
 * block maximum) and 0-6 sequences written with all three symbol tables in RLE mode, so that a sequence is nothing but its
 * extra bits.  Lengths are random, extreme, or aimed: "this sequence ends d bytes before / after the announced content size".
 * The header announces the real regenerated size, a lie, or nothing (window descriptor instead). ---- */
typedef struct { uint8_t* p; size_t pos; uint64_t acc; unsigned nb; } BitW;
static void bw_add(BitW* b, uint64_t v, unsigned n) { while (n > 24) { bw_add(b, v & 0xFFFFFF, 24); v >>= 24; n -= 24; } b->acc |= (v & ((1ull << n) - 1)) << b->nb; b->nb += n; while (b->nb >= 8) { b->p[b->pos++] = (uint8_t)b->acc; b->acc >>= 8; b->nb -= 8; } }
static const uint32_t k_llb[36] = { 0,1,2,3,4,5,6,7,8,9,10,11,12,13,14,15,16,18,20,22,24,28,32,40,48,64,128,256,512,1024,2048,4096,8192,16384,32768,65536 };
static const uint8_t  k_lln[36] = { 0,0,0,0,0,0,0,0,0,0,0,0,0,0,0,0,1,1,1,1,2,2,3,3,4,6,7,8,9,10,11,12,13,14,15,16 };
static const uint32_t k_mlb[53] = { 3,4,5,6,7,8,9,10,11,12,13,14,15,16,17,18,19,20,21,22,23,24,25,26,27,28,29,30,31,32,33,34,35,37,39,41,43,47,51,59,67,83,99,131,259,515,1027,2051,4099,8195,16387,32771,65539 };
static const uint8_t  k_mln[53] = { 0,0,0,0,0,0,0,0,0,0,0,0,0,0,0,0,0,0,0,0,0,0,0,0,0,0,0,0,0,0,0,0,1,1,1,1,2,2,3,3,4,4,5,7,8,9,10,11,12,13,14,15,16 };
static uint64_t aim(Rng* g, uint32_t base, unsigned nbits, long long want) {   /* extra bits so that base + extra is `want` when reachable, else clamp */
    uint64_t const span = nbits ? (1ull << nbits) : 1; (void)g;
    if (want < (long long)base) return 0; if ((uint64_t)(want - base) >= span) return span - 1; return (uint64_t)(want - base);
}
static void make_crafted_frame(const Plan* p, Sess* s, Frame* fr) {
    Rng g; size_t n = 0, cap = 600u << 10; int nblocks, b, squeeze; uint8_t* f = (uint8_t*)malloc(cap); size_t total = 0, fcs_pos; int fcs_mode; size_t announced;
    rng_seed(&g, (uint64_t)plan_get(p, "craft_seed", 1), "craft");
    nblocks = rng_coin(&g, 2, 3) ? 1 : 1 + (int)rng_below(&g, 3); fcs_mode = (int)rng_below(&g, 6);   /* 0-2 true size, 3 lie (smaller), 4 lie (slightly larger), 5 no FCS: window descriptor */
    announced = (size_t)plan_get(p, "craft_size", 100000); squeeze = (int)plan_get(p, "craft_squeeze", 0); if (squeeze && fcs_mode == 5) fcs_mode = 0;
    f[n++] = 0x28; f[n++] = 0xB5; f[n++] = 0x2F; f[n++] = 0xFD;
    if (fcs_mode == 5) { f[n++] = 0x00; f[n++] = (uint8_t)((rng_below(&g, 12) << 3) | rng_below(&g, 8)); fcs_pos = 0; } else { f[n++] = 0xA0; fcs_pos = n; n += 4; }
    for (b = 0; b < nblocks; b++) {
        size_t const bh = n, start = n + 3; size_t lit, litleft, produced = 0; int nseq, k, raw; unsigned llc, ofc, mlc; long long room = (long long)announced - (long long)total;
        switch (rng_below(&g, 8)) { case 0: lit = (size_t)rng_below(&g, 300); break; case 1: lit = 65536 + (size_t)rng_below(&g, 3) - 1; break; case 2: lit = (128u << 10) - (size_t)rng_below(&g, 3); break; case 3: lit = (size_t)rng_below(&g, 128u << 10); break; default: lit = 65537 + (size_t)rng_below(&g, 65535); break; }
        raw = rng_coin(&g, 1, 3) && lit < (100u << 10);
        { uint32_t const h = (raw ? 0u : 1u) | (3u << 2) | ((uint32_t)lit << 4); f[n++] = (uint8_t)h; f[n++] = (uint8_t)(h >> 8); f[n++] = (uint8_t)(h >> 16); }
        if (raw) { size_t i; for (i = 0; i < lit; i++) f[n++] = (uint8_t)(rng_u64(&g) >> 13); } else f[n++] = (uint8_t)('A' + b);
        nseq = (int)rng_below(&g, 7);
        if (b == 0 && squeeze) {   /* split-literal squeeze: the first sequence leaves less output room than literals still resident in the output buffer; the second crosses the split */
            BitW w; unsigned const lc = 32 + (unsigned)rng_below(&g, 3), mc = 51 + (unsigned)rng_below(&g, 2), oc = 1 + (unsigned)rng_below(&g, 12); uint64_t x1 = rng_below(&g, 1u << k_lln[lc]), xm1 = rng_below(&g, 1u << k_mln[mc]), x2, xm2 = rng_below(&g, 1u << k_mln[mc]); long long const l1 = (long long)k_llb[lc] + (long long)x1, m1 = (long long)k_mlb[mc] + (long long)xm1, d = (long long)rng_below(&g, 700) - 3; long long resid;
            n = start; lit = 65536 + (size_t)l1 + 1 + (size_t)rng_below(&g, 4000); if (lit > (128u << 10)) lit = 128u << 10; resid = (long long)lit - 65536 - l1;
            x2 = rng_coin(&g, 1, 2) ? aim(&g, k_llb[lc], k_lln[lc], (long long)lit - l1) : rng_below(&g, 1u << k_lln[lc]);
            { uint32_t const h = 1u | (3u << 2) | ((uint32_t)lit << 4); f[n++] = (uint8_t)h; f[n++] = (uint8_t)(h >> 8); f[n++] = (uint8_t)(h >> 16); f[n++] = 'S'; }
            f[n++] = 2; f[n++] = (1u << 6) | (1u << 4) | (1u << 2); f[n++] = (uint8_t)lc; f[n++] = (uint8_t)oc; f[n++] = (uint8_t)mc;
            w.p = f; w.pos = n; w.acc = 0; w.nb = 0; bw_add(&w, x2, k_lln[lc]); bw_add(&w, xm2, k_mln[mc]); bw_add(&w, rng_u64(&g) & ((1ull << oc) - 1), oc); bw_add(&w, x1, k_lln[lc]); bw_add(&w, xm1, k_mln[mc]); bw_add(&w, 0, oc); bw_add(&w, 1, 1); if (w.nb) w.p[w.pos++] = (uint8_t)w.acc; n = w.pos;
            announced = (size_t)(l1 + m1 + d); (void)resid; produced = (size_t)(l1 + m1) + (size_t)k_llb[lc] + (size_t)x2 + (size_t)k_mlb[mc] + (size_t)xm2; sim_probe("c03.crafted_split_squeeze");
        } else {
        f[n++] = (uint8_t)nseq;
        if (nseq) { BitW w; long long ll[8], ml[8]; uint64_t xl[8], xm[8], xo[8];
            llc = rng_coin(&g, 1, 2) ? 33 + (unsigned)rng_below(&g, 3) : (unsigned)rng_below(&g, 36); mlc = rng_coin(&g, 1, 2) ? 50 + (unsigned)rng_below(&g, 3) : (unsigned)rng_below(&g, 53); ofc = rng_coin(&g, 1, 8) ? (unsigned)rng_below(&g, 32) : (unsigned)rng_below(&g, 18);
            f[n++] = (1u << 6) | (1u << 4) | (1u << 2); f[n++] = (uint8_t)llc; f[n++] = (uint8_t)ofc; f[n++] = (uint8_t)mlc;
            litleft = lit;
            for (k = 0; k < nseq; k++) {
                long long wl, wm; int const m = (int)rng_below(&g, 6);
                /* literal length: random / all that is left / what is left minus a few */
                wl = m == 0 ? (long long)litleft : m == 1 ? (long long)litleft - (long long)rng_below(&g, 2000) : (long long)k_llb[llc] + (long long)rng_below(&g, 1u << (k_lln[llc] > 20 ? 20 : k_lln[llc]));
                xl[k] = aim(&g, k_llb[llc], k_lln[llc], wl); ll[k] = (long long)k_llb[llc] + (long long)xl[k];
                /* match length: random / so that the output ends d bytes before or after the room announced */
                { long long const after_lit = (long long)produced + ll[k]; int const mm = (int)rng_below(&g, 5); long long const d = (long long)rng_below(&g, 3) == 0 ? 0 : (long long)rng_below(&g, 600) - 100;
                  wm = mm < 2 ? room - after_lit - d : (long long)k_mlb[mlc] + (long long)rng_below(&g, 1u << (k_mln[mlc] > 20 ? 20 : k_mln[mlc])); }
                xm[k] = aim(&g, k_mlb[mlc], k_mln[mlc], wm); ml[k] = (long long)k_mlb[mlc] + (long long)xm[k];
                xo[k] = ofc ? rng_u64(&g) & ((1ull << ofc) - 1) : 0; if (rng_coin(&g, 1, 3)) xo[k] = 0;
                produced += (size_t)(ll[k] + ml[k]); litleft = (long long)litleft > ll[k] ? litleft - (size_t)ll[k] : 0;
            }
            w.p = f; w.pos = n; w.acc = 0; w.nb = 0;
            for (k = nseq - 1; k >= 0; k--) { bw_add(&w, xl[k], k_lln[llc]); bw_add(&w, xm[k], k_mln[mlc]); bw_add(&w, xo[k], ofc); }
            bw_add(&w, 1, 1); if (w.nb) { w.p[w.pos++] = (uint8_t)w.acc; } n = w.pos;
            produced += litleft;
        } else produced = lit;
        }
        total += produced;
        { uint32_t const csz = (uint32_t)(n - start), h = (b + 1 == nblocks ? 1u : 0u) | (2u << 1) | (csz << 3); f[bh] = (uint8_t)h; f[bh + 1] = (uint8_t)(h >> 8); f[bh + 2] = (uint8_t)(h >> 16); }
        if (n + (140u << 10) > cap) { nblocks = b + 1; f[bh] |= 1; }
    }
    if (fcs_pos) { uint32_t v = fcs_mode <= 2 ? (uint32_t)(announced) : fcs_mode == 3 ? (uint32_t)(announced / 2) : (uint32_t)(announced + rng_below(&g, 400)); if (rng_coin(&g, 1, 4)) v = (uint32_t)total; f[fcs_pos] = (uint8_t)v; f[fcs_pos + 1] = (uint8_t)(v >> 8); f[fcs_pos + 2] = (uint8_t)(v >> 16); f[fcs_pos + 3] = (uint8_t)(v >> 24); s->in_size = v; }
    else s->in_size = announced;
    fr->f = f; fr->n = n; sim_probe("c03.crafted_frames");
}
/* ---- wire faults (explicit ops "flt kind a b") ---- */
static void apply_faults(const Plan* p, Frame* fr) {
    int i; size_t hdr = 18 < fr->n ? 18 : fr->n;
    for (i = 0; i < p->nops; i++) {
        const PlanOp* o = &p->ops[i]; size_t a, b; if (strcmp(o->kind, "flt") || fr->n == 0) continue;
        a = (size_t)((uint64_t)o->a[1] % fr->n); b = (size_t)(o->a[2] < 0 ? 0 : o->a[2]);
        switch ((int)o->a[0]) {
        case 0: fr->f[a] ^= (uint8_t)(1u << (b & 7)); sim_fault_fired("wire_bitflip"); break;
        case 1: fr->f[a % (hdr ? hdr : 1)] ^= (uint8_t)(1u << (b & 7)); sim_fault_fired("wire_bitflip_header"); break;
        case 2: fr->n = a ? a : 1; sim_fault_fired("wire_truncate"); break;
        case 3: { size_t l = 1 + b % 64; if (a + l > fr->n) l = fr->n - a; memset(fr->f + a, (int)(b >> 8), l); sim_fault_fired("wire_smear"); break; }
        case 4: { size_t l = 1 + b % 4096; size_t from = (size_t)((uint64_t)(o->a[2] * 7919) % fr->n); if (a + l > fr->n) l = fr->n - a; if (from + l > fr->n) l = fr->n - from; memmove(fr->f + a, fr->f + from, l); sim_fault_fired("wire_stale_splice"); break; }
        case 5: { size_t pg = a & ~(size_t)4095, l = 4096; if (pg + l > fr->n) l = fr->n - pg; memset(fr->f + pg, 0, l); sim_fault_fired("wire_zero_page"); break; }
        case 6: { size_t l = 1 + b % 40; size_t k; fr->f = (uint8_t*)realloc(fr->f, fr->n + l); for (k = 0; k < l; k++) fr->f[fr->n + k] = (uint8_t)(o->a[1] >> (k % 7)); fr->n += l; sim_fault_fired("wire_append_garbage"); break; }
        case 7: { size_t l = 1 + b % 512; if (a + l > fr->n) l = fr->n - a; fr->f = (uint8_t*)realloc(fr->f, fr->n + l); memmove(fr->f + a + l, fr->f + a, fr->n - a); fr->n += l; sim_fault_fired("wire_duplicate_segment"); break; }
        default: { /* block/length fields: bytes right after the frame header and block headers */ size_t q = 4 + (b % 24); if (q < fr->n) fr->f[q] = (uint8_t)(fr->f[q] + 1 + (b >> 5)); sim_fault_fired("wire_length_field"); break; }
        }
    }
}
static void gen_faults(Plan* p, Rng* r, int n) { int i; for (i = 0; i < n; i++) plan_add(p, "flt", 3, (int64_t)rng_below(r, 9), (int64_t)(rng_u64(r) >> 8), (int64_t)rng_below(r, 1 << 20)); }

/* ---- decode paths ---- */
enum { V_ONESHOT = 0, V_STREAM, V_STABLEOUT, V_BUFFERLESS, V_INPLACE, V_DDICT, V_STREAM_NOASM, V_SIMPLE_API, V_COUNT };
typedef struct { size_t r; uint8_t* out; size_t n; long calls; size_t produced; } VRes;

static void set_coins(const Plan* p, int variant) {
    int const m = (int)plan_get(p, "coin_mode", 0) + variant;   /* vary across variants of the same frame */
    sim_hook_set_coin(ZSTD_VC_hufSelectDecoder, (m % 3) == 1 ? 1024 : (m % 3) == 2 ? 512 : 0);
    sim_hook_set_coin(ZSTD_VC_usePrefetchDecoder, (m % 4) >= 2 ? 1024 : 0);
    sim_hook_set_coin(ZSTD_VC_disableBmi2, (m % 5) == 3 ? 1024 : 0);
}
static ZSTD_DCtx* mk_dctx(const Frame* fr, int safe) {
    ZSTD_DCtx* d = ZSTD_createDCtx_advanced(sess_cmem());
    if (fr->magicless) ZSTD_DCtx_setParameter(d, ZSTD_d_format, ZSTD_f_zstd1_magicless);
    ZSTD_DCtx_setParameter(d, ZSTD_d_windowLogMax, safe ? 25 : 31);
    return d;
}
/* runs one decode path; capacity `cap` for the output; returns result code in v->r (error code or size) */
static void run_variant(const Plan* p, const Frame* fr, int variant, size_t cap, VRes* v, int fuzz) {
    ZSTD_DCtx* d; uint8_t* out = (uint8_t*)sim_buf_new(cap); const char* e; size_t r = 0;
    memset(v, 0, sizeof *v);
    set_coins(p, variant);
    d = mk_dctx(fr, fuzz);
    if (fr->dict && variant != V_DDICT) ZSTD_DCtx_loadDictionary(d, fr->dict, fr->dict_size);
    switch (variant) {
    case V_ONESHOT: { uint8_t* src = (uint8_t*)sim_buf_new(fr->n); if (fr->n) memcpy(src, fr->f, fr->n); r = ZSTD_decompressDCtx(d, out, cap, src, fr->n); if ((e = sim_buf_check(src)) != NULL) sim_violation("src_overrun", "one-shot: %s", e); sim_buf_free(src); v->n = ZSTD_isError(r) ? 0 : r; break; }
    case V_SIMPLE_API: { if (fr->dict || fr->magicless) { r = ZSTD_decompressDCtx(d, out, cap, fr->f, fr->n); } else r = ZSTD_decompress(out, cap, fr->f, fr->n); v->n = ZSTD_isError(r) ? 0 : r; break; }
    case V_STREAM: case V_STREAM_NOASM: { DecResult dr; if (variant == V_STREAM_NOASM) ZSTD_DCtx_setParameter(d, ZSTD_d_disableHuffmanAssembly, 1);
        sess_run_dhist(p, d, fr->f, fr->n, fr->magicless, 0, &dr); v->produced = dr.out_size; r = dr.err ? dr.err : (dr.out_size <= cap ? dr.out_size : 0 /* streaming has per-call capacities (guarded inside the driver); the total is not bounded by cap */); v->calls = dr.ncalls;
        if (!dr.err) { if (dr.out_size > cap) { if (!fuzz) sim_violation("variant_mismatch", "streaming produced %zu bytes > expected %zu", dr.out_size, cap); } else { if (dr.out_size) memcpy(out, dr.out, dr.out_size); v->n = dr.out_size; } if (dr.consumed != fr->n && !fuzz) r = (size_t)-ZSTD_error_srcSize_wrong; }
        dec_result_free(&dr); break; }
    case V_STABLEOUT: { ZSTD_inBuffer in; ZSTD_outBuffer o; size_t pos = 0; size_t seg = (size_t)plan_get(p, "dfin_in", 4096); long g = 0; if (seg < 1) seg = 1;
        ZSTD_DCtx_setParameter(d, ZSTD_d_stableOutBuffer, 1); o.dst = out; o.size = cap; o.pos = 0; r = 1;
        while (pos < fr->n) { size_t n = fr->n - pos < seg ? fr->n - pos : seg; size_t before = o.pos; in.src = fr->f + pos; in.size = n; in.pos = 0; r = ZSTD_decompressStream(d, &o, &in); v->calls++; if (ZSTD_isError(r)) break; pos += in.pos; if (in.pos == 0 && o.pos == before) { if (++g > 20) break; } else g = 0; }
        if (!ZSTD_isError(r)) { v->n = o.pos; if (r != 0 && !fuzz) r = (size_t)-ZSTD_error_srcSize_wrong; else r = o.pos; } break; }
    case V_BUFFERLESS: { size_t pos = 0, op = 0; long g = 0; ZSTD_frameHeader zfh; int multi = 0;
        if (fr->legacy) { r = ZSTD_decompressDCtx(d, out, cap, fr->f, fr->n); v->n = ZSTD_isError(r) ? 0 : r; break; }
        for (;;) {   /* one frame after the other */
            if (fr->dict) r = ZSTD_decompressBegin_usingDict(d, fr->dict, fr->dict_size); else r = ZSTD_decompressBegin(d);
            if (ZSTD_isError(r)) break;
            for (;;) { size_t const want = ZSTD_nextSrcSizeToDecompress(d); if (want == 0) break; if (want > fr->n - pos) { r = (size_t)-ZSTD_error_srcSize_wrong; break; }
                r = ZSTD_decompressContinue(d, out + op, cap - op, fr->f + pos, want); if (ZSTD_isError(r)) break; pos += want; op += r; if (++g > 4000000) { r = (size_t)-ZSTD_error_GENERIC; break; } }
            if (ZSTD_isError(r)) break;
            if (pos >= fr->n) break;
            (void)zfh; if (++multi > 64) break;
        }
        if (!ZSTD_isError(r)) { v->n = op; r = op; } v->calls = g; break; }
    case V_INPLACE: { size_t margin = ZSTD_decompressionMargin(fr->f, fr->n); uint8_t* buf; size_t total;
        if (ZSTD_isError(margin) || fr->legacy) { r = ZSTD_decompressDCtx(d, out, cap, fr->f, fr->n); v->n = ZSTD_isError(r) ? 0 : r; break; }
        if (margin > ((size_t)1 << 30)) { r = (size_t)-ZSTD_error_memory_allocation; break; }
        total = cap + margin; if (total < fr->n) total = fr->n; buf = (uint8_t*)sim_buf_new(total); if (fr->n) memcpy(buf + total - fr->n, fr->f, fr->n);
        r = ZSTD_decompressDCtx(d, buf, total, buf + total - fr->n, fr->n);
        if ((e = sim_buf_check(buf)) != NULL) sim_violation("dst_overrun", "in-place decode: %s", e);
        if (!ZSTD_isError(r)) { if (r > cap) { if (!fuzz) sim_violation("variant_mismatch", "in-place produced %zu > expected %zu", r, cap); r = (size_t)-ZSTD_error_dstSize_tooSmall; } else { if (r) memcpy(out, buf, r); v->n = r; } }
        sim_buf_free(buf); break; }
    case V_DDICT: { ZSTD_DDict* dd = fr->dict ? ZSTD_createDDict_advanced(fr->dict, fr->dict_size, ZSTD_dlm_byRef, ZSTD_dct_auto, sess_cmem()) : NULL;
        r = ZSTD_decompress_usingDDict(d, out, cap, fr->f, fr->n, dd);          /* cold dictionary: first use */
        if (!ZSTD_isError(r)) { size_t r2 = ZSTD_decompress_usingDDict(d, out, cap, fr->f, fr->n, dd); if (r2 != r) { if (!fuzz) sim_violation("variant_mismatch", "warm DDict decode returns %zu, cold returned %zu", r2, r); } }   /* warm */
        v->n = ZSTD_isError(r) ? 0 : r; ZSTD_freeDDict(dd); break; }
    default: break;
    }
    if ((e = sim_buf_check(out)) != NULL) sim_violation("dst_overrun", "decode path %d wrote outside its %zu-byte destination: %s", variant, cap, e);
    if (!ZSTD_isError(r) && r > cap) sim_violation("capacity_exceeded", "decode path %d returned %zu > capacity %zu", variant, r, cap);
    v->r = r; v->out = out;
    ZSTD_freeDCtx(d);
}

/* reference: R(f) over all frames of the wire (skippable ignored) */
static int reference(Frame* fr, size_t maxout) {
    char err[128]; fr->R = (uint8_t*)malloc(maxout + 1);
    if (fr->legacy) return -1;
    if (refdec_stream(fr->R, maxout, &fr->rn, fr->f, fr->n, fr->dict, fr->dict_size, fr->magicless, err, sizeof err) != 0) return -1;
    fr->have_R = 1; return 0;
}

static void gen04(Plan* p, Rng* r, int tier, long idx) {
    int kind = (int)(idx % 8);   /* 0-3 compressor, 4-5 corpus, 6 legacy, 7 faulted-but-valid */
    plan_set(p, "src_kind", kind < 4 ? 0 : kind < 6 ? 1 : kind == 6 ? 0 : 3);   /* legacy frames are not 'valid under the format specification': they are exercised by c03fuzz only */
    sess_gen_input_params(p, r, tier ? (1u << 20) : (256u << 10));
    sess_gen_cparams(p, r, GP_NOMT);
    if (rng_coin(r, 1, 3)) { plan_set(p, "dict_kind", rng_range(r, 1, 2)); plan_set(p, "dict_size", (int64_t)(8 + rng_size(r, 60 << 10))); plan_set(p, "dict_seed", (int64_t)(rng_u64(r) >> 2)); }
    if (rng_coin(r, 1, 5)) plan_set(p, "two_frames", 1);
    plan_set(p, "corpus_seed", (int64_t)(g_sim_root & 0xffff)); plan_set(p, "corpus_n", tier ? 4000 : 600); plan_set(p, "corpus_idx", (int64_t)rng_below(r, 1 << 20));
    plan_set(p, "legacy_idx", (int64_t)rng_below(r, 3));
    plan_set(p, "coin_mode", (int64_t)rng_below(r, 60));
    sess_gen_dhist(p, r);
    if (kind == 7) gen_faults(p, r, 1 + (int)rng_below(r, 2));
}
static void exec04(const Plan* p) {
    Sess s; Frame fr; int v; size_t maxout; int kind = (int)plan_get(p, "src_kind", 0); const char* e;
    sess_init(&s); memset(&fr, 0, sizeof fr);
    if (kind == 1) { if (load_corpus_frame(p, &fr) != 0) { sim_probe("c04.corpus_unavailable"); make_compressor_frame(p, &s, &fr); kind = 0; } }
    else if (kind == 2) { if (load_legacy_frame(p, &fr) != 0) { sim_probe("c04.legacy_unavailable"); make_compressor_frame(p, &s, &fr); kind = 0; } }
    else make_compressor_frame(p, &s, &fr);
    if (kind == 3) apply_faults(p, &fr);
    maxout = kind == 1 ? (4u << 20) : kind == 2 ? 8192 : s.in_size + 8;
    if (reference(&fr, maxout) != 0) {
        if (kind == 0) sim_violation("refdec_rejects_compressor_output", "independent decoder rejects an unmodified frame from the compressor");
        if (kind == 2) { /* legacy: the one-shot output is the reference, path equality is the claim */ VRes v0; run_variant(p, &fr, V_ONESHOT, maxout, &v0, 0); if (ZSTD_isError(v0.r)) sim_violation("legacy_decode_error", "legacy frame rejected: %s", ZSTD_getErrorName(v0.r)); fr.rn = v0.n; memcpy(fr.R, v0.out, v0.n); fr.have_R = 1; sim_buf_free(v0.out);
            if (strlen(EXPECTED) < fr.rn || 0) sim_probe("c04.legacy_longer_than_expected"); sim_probe("c04.legacy_frames"); }
        else { sim_probe(kind == 1 ? "c04.corpus_frame_rejected_by_R" : "c04.faulted_frame_rejected_by_R"); goto done; }
    }
    if (kind == 0 && (fr.rn != s.in_size || memcmp(fr.R, s.in, fr.rn))) sim_violation("refdec_mismatch", "independent decoder regenerates other bytes than the compressor's input");
    sim_probe(kind == 0 ? "c04.frames_compressor" : kind == 1 ? "c04.frames_corpus" : kind == 2 ? "c04.frames_legacy" : "c04.frames_faulted_valid");
    {   int rejected = 0, accepted = 0, first_rej = -1; size_t first_err = 0;
    for (v = 0; v < V_COUNT; v++) {
        VRes res; char pb[48];
        if (v == V_DDICT && !fr.dict) continue;
        if (fr.legacy && (v == V_STABLEOUT || v == V_INPLACE)) continue;
        run_variant(p, &fr, v, fr.rn, &res, 0);
        /* a wire-faulted frame that the reference decoder still accepts is not thereby VALID: the reference does not enforce
         * every rule (Block_Maximum_Size, bytes after a sequence count of 0, window limits of the streaming decoder), and the
         * library's paths enforce different subsets of them.  For such a frame a path may refuse; every path that ACCEPTS must
         * return the reference output.  Frames from the compressor and from the repository's generator stay strict. */
        if (ZSTD_isError(res.r) && kind == 3) { if (!rejected) { first_rej = v; first_err = res.r; } rejected++; sim_buf_free(res.out); continue; }
        accepted++;
        if (ZSTD_isError(res.r)) sim_violation("variant_rejects_valid_frame", "decode path %d fails on a frame the reference decoder accepts (%zu bytes -> %zu): %s", v, fr.n, fr.rn, ZSTD_getErrorName(res.r));
        if (res.n != fr.rn || (res.n && memcmp(res.out, fr.R, res.n))) sim_violation("variant_mismatch", "decode path %d produces %zu bytes, reference %zu, or content differs", v, res.n, fr.rn);
        sim_buf_free(res.out);
        snprintf(pb, sizeof pb, "c04.path%d_ok", v); sim_probe(pb);
    }
    (void)first_rej; (void)first_err;
    if (rejected) { sim_probe(accepted ? "c04.faulted_frame_refused_by_some_paths" : "c04.faulted_frame_refused_by_all_paths"); goto done; }
    }
    sim_probe_n("c04.coin_huf_flipped", sim_hook_coin_fired(ZSTD_VC_hufSelectDecoder)); sim_probe_n("c04.coin_prefetch_forced", sim_hook_coin_fired(ZSTD_VC_usePrefetchDecoder)); sim_probe_n("c04.coin_bmi2_off", sim_hook_coin_fired(ZSTD_VC_disableBmi2));
    sim_event_bytes("R", fr.R, fr.rn);
    if (fr.rn > 0) sim_mark_nontrivial();
done:
    free(fr.f); free(fr.R); sess_buf_cache_drop();
    if (sim_alloc_live_blocks() != 0) sim_violation("leak", "%ld allocator block(s) live at end", sim_alloc_live_blocks());
    if ((e = sim_alloc_check()) != NULL) sim_violation("heap_corruption", "%s", e);
    sess_free(&s);
}

/* ---------------- C03 ---------------- */
static void gen03(Plan* p, Rng* r, int tier, long idx) {
    int kind = (int)(idx % 8);
    plan_set(p, "src_kind", kind < 4 ? 0 : kind < 6 ? 1 : kind == 6 ? 2 : 4);   /* 4 = pure garbage */
    sess_gen_input_params(p, r, tier ? (256u << 10) : (64u << 10));
    sess_gen_cparams(p, r, GP_NOMT);
    if (rng_coin(r, 1, 3)) { plan_set(p, "dict_kind", rng_range(r, 1, 2)); plan_set(p, "dict_size", (int64_t)(8 + rng_size(r, 30 << 10))); plan_set(p, "dict_seed", (int64_t)(rng_u64(r) >> 2)); if (rng_coin(r, 1, 2)) plan_set(p, "dict_fault", 1 + (int64_t)rng_below(r, 3)); }
    plan_set(p, "corpus_seed", (int64_t)(g_sim_root & 0xffff)); plan_set(p, "corpus_n", tier ? 4000 : 600); plan_set(p, "corpus_idx", (int64_t)rng_below(r, 1 << 20));
    plan_set(p, "legacy_idx", (int64_t)rng_below(r, 3)); plan_set(p, "coin_mode", (int64_t)rng_below(r, 60));
    plan_set(p, "cap_mode", (int64_t)rng_below(r, 4)); plan_set(p, "garbage_size", (int64_t)rng_size(r, 3000)); plan_set(p, "garbage_seed", (int64_t)(rng_u64(r) >> 2));
    sess_gen_dhist(p, r);
    if (idx % 16 == 3) {   /* forged frames: mostly as they are, some with a wire fault on top */
        plan_set(p, "src_kind", 5); plan_set(p, "craft_seed", (int64_t)(rng_u64(r) >> 2)); plan_set(p, "craft_size", rng_coin(r, 1, 2) ? 66000 + (int64_t)rng_below(r, 200000) : (int64_t)rng_below(r, 400000));
        plan_set(p, "craft_squeeze", rng_coin(r, 2, 5)); plan_set(p, "dict_kind", 0); plan_set(p, "cap_mode", rng_coin(r, 3, 4) ? 0 : (int64_t)rng_below(r, 4));
        if (rng_coin(r, 1, 4)) gen_faults(p, r, 1);
        return;
    }
    gen_faults(p, r, 1 + (int)rng_below(r, 4));
}
static void exec03(const Plan* p) {
    Sess s; Frame fr; int v; int kind = (int)plan_get(p, "src_kind", 0); size_t cap; const char* e; size_t orig;
    sess_init(&s); memset(&fr, 0, sizeof fr);
    if (kind == 4) { Rng g; size_t n = (size_t)plan_get(p, "garbage_size", 100), i; rng_seed(&g, (uint64_t)plan_get(p, "garbage_seed", 1), "garbage"); fr.f = (uint8_t*)malloc(n + 8); fr.n = n; for (i = 0; i < n; i++) fr.f[i] = (uint8_t)rng_u64(&g);
        if (n >= 4 && rng_coin(&g, 2, 3)) { fr.f[0] = 0x28; fr.f[1] = 0xB5; fr.f[2] = 0x2F; fr.f[3] = 0xFD; } s.in_size = n * 4; }
    else if (kind == 1) { if (load_corpus_frame(p, &fr) != 0) { make_compressor_frame(p, &s, &fr); } else s.in_size = 1 << 20; }
    else if (kind == 2) { if (load_legacy_frame(p, &fr) != 0) make_compressor_frame(p, &s, &fr); else s.in_size = 4096; }
    else if (kind == 5) make_crafted_frame(p, &s, &fr);
    else make_compressor_frame(p, &s, &fr);
    orig = s.in_size;
    apply_faults(p, &fr);
    if (fr.dict && plan_get(p, "dict_fault", 0)) {   /* the decoder's copy of the dictionary is damaged / different */
        uint8_t* d2 = (uint8_t*)malloc(fr.dict_size + 1); int df = (int)plan_get(p, "dict_fault", 0); memcpy(d2, fr.dict, fr.dict_size);
        if (df == 1) d2[(size_t)plan_get(p, "corpus_idx", 0) % fr.dict_size] ^= 0x40; else if (df == 2) fr.dict_size = fr.dict_size / 2 + 1; else memset(d2 + fr.dict_size / 3, 0x5A, fr.dict_size / 3);
        fr.dict = d2; sim_fault_fired("dict_store_fault");
    }
    switch ((int)plan_get(p, "cap_mode", 0)) { case 0: cap = orig + (kind == 5 ? 0 : 64); break; case 1: cap = orig / 2; break; case 2: cap = (size_t)plan_get(p, "garbage_size", 0) % 64; break; default: cap = orig * 2 + 1024; break; }
    if (cap > (8u << 20)) cap = 8u << 20;
    for (v = 0; v < V_COUNT; v++) {
        VRes res;
        if (v == V_DDICT && !fr.dict) continue;
        run_variant(p, &fr, v, cap, &res, 1);
        if (!ZSTD_isError(res.r)) sim_probe("c03.accepted"); else sim_probe("c03.rejected");
        /* every call must consume or produce at least one byte (stalls are bounded by the driver): the number of calls is bounded by input + output bytes */
        if (res.calls > (long)(fr.n + cap + res.produced) * 2 + 100000) sim_violation("unbounded_calls", "decode path %d needed %ld calls for %zu input bytes and %zu output bytes", v, res.calls, fr.n, res.produced);
        sim_buf_free(res.out);
    }
    /* inspectors */
    { ZSTD_frameHeader zfh; unsigned long long q; size_t z; unsigned mv; uint8_t tmp[64]; uint8_t* src = (uint8_t*)sim_buf_new(fr.n); if (fr.n) memcpy(src, fr.f, fr.n);
      z = ZSTD_getFrameHeader(&zfh, src, fr.n); (void)z; z = ZSTD_getFrameHeader_advanced(&zfh, src, fr.n, ZSTD_f_zstd1_magicless);
      z = ZSTD_findFrameCompressedSize(src, fr.n); if (!ZSTD_isError(z) && z > fr.n) sim_violation("inspector_out_of_range", "findFrameCompressedSize returned %zu for %zu bytes", z, fr.n);
      q = ZSTD_decompressBound(src, fr.n); (void)q; q = ZSTD_getFrameContentSize(src, fr.n); q = ZSTD_findDecompressedSize(src, fr.n);
      z = ZSTD_decompressionMargin(src, fr.n); z = ZSTD_frameHeaderSize(src, fr.n);
      z = ZSTD_readSkippableFrame(tmp, sizeof tmp, &mv, src, fr.n); if (!ZSTD_isError(z) && z > sizeof tmp) sim_violation("capacity_exceeded", "readSkippableFrame returned %zu > 64", z);
      (void)ZSTD_isSkippableFrame(src, fr.n); (void)ZSTD_isFrame(src, fr.n); (void)ZSTD_getDictID_fromFrame(src, fr.n); (void)ZSTD_getDictID_fromDict(src, fr.n);
      if ((e = sim_buf_check(src)) != NULL) sim_violation("src_overrun", "inspectors: %s", e);
      /* arbitrary bytes offered as a dictionary, both sides */
      { ZSTD_DDict* dd = ZSTD_createDDict(src, fr.n); ZSTD_CDict* cd = ZSTD_createCDict(src, fr.n, 3); if (dd) { uint8_t o2[256]; ZSTD_DCtx* d = ZSTD_createDCtx(); (void)ZSTD_decompress_usingDDict(d, o2, sizeof o2, fr.f, fr.n, dd); ZSTD_freeDCtx(d); } ZSTD_freeDDict(dd); ZSTD_freeCDict(cd); }
      /* block-level API */
      { ZSTD_DCtx* d = ZSTD_createDCtx(); uint8_t* o2 = (uint8_t*)sim_buf_new(1 << 17); ZSTD_decompressBegin(d); if (fr.n > 9) { z = ZSTD_decompressBlock(d, o2, 1 << 17, src + 9, fr.n - 9 > (1 << 17) ? (1 << 17) : fr.n - 9); if (!ZSTD_isError(z) && z > (1 << 17)) sim_violation("capacity_exceeded", "decompressBlock returned %zu", z); } if ((e = sim_buf_check(o2)) != NULL) sim_violation("dst_overrun", "decompressBlock: %s", e); sim_buf_free(o2); ZSTD_freeDCtx(d); }
      sim_buf_free(src); }
    sim_mark_nontrivial();
    if (fr.dict && plan_get(p, "dict_fault", 0)) free(fr.dict);
    free(fr.f); sess_buf_cache_drop();
    if (sim_alloc_live_blocks() != 0) sim_violation("leak", "%ld allocator block(s) live at end", sim_alloc_live_blocks());
    if ((e = sim_alloc_check()) != NULL) sim_violation("heap_corruption", "%s", e);
    sess_free(&s);
}
const Scenario scen_c04decvar = { "c04decvar", "C04", gen04, exec04 };
const Scenario scen_c03fuzz = { "c03fuzz", "C03", gen03, exec03 };
