#include "scenarios.h"
extern const Scenario scen_c12pool, scen_c11mt, scen_c07mt, scen_c13oom, scen_c02stream, scen_c05conf, scen_c10prog, scen_c09trunc, scen_c07pure, scen_c04decvar, scen_c03fuzz, scen_c15wear, scen_c06cap, scen_c14budget, scen_c08dict, scen_c16params, scen_c17seq, scen_c18train, scen_c20seek;
const Scenario* const g_scenarios[] = {
    &scen_c12pool, &scen_c11mt, &scen_c07mt, &scen_c13oom, &scen_c02stream, &scen_c05conf, &scen_c10prog, &scen_c09trunc, &scen_c07pure, &scen_c04decvar, &scen_c03fuzz, &scen_c15wear, &scen_c06cap, &scen_c14budget, &scen_c08dict, &scen_c16params, &scen_c17seq, &scen_c18train, &scen_c20seek,
    NULL
};
