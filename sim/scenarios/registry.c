#include "scenarios.h"
extern const Scenario scen_c12pool;
const Scenario* const g_scenarios[] = {
    &scen_c12pool,
    NULL
};
