#include "scenarios.h"
extern const Scenario scen_c12pool, scen_c11mt, scen_c07mt, scen_c13oom;
const Scenario* const g_scenarios[] = {
    &scen_c12pool, &scen_c11mt, &scen_c07mt, &scen_c13oom,
    NULL
};
