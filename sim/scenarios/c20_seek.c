/* c20_seek.c — C20: seekable format.  The reader works on storage it does not own: the simulator provides that storage
 * (memory, a stdio FILE over fopencookie, or read/seek callbacks) and injects what storage does: a read or seek that
 * fails at the k-th call, short reads, and corruption of the stored archive (seek table, footer, frame data, truncation).
 * The writer side is driven through a seeded call history (input slices, output capacities, explicit endFrame points,
 * endStream into small buffers).  Reference model: the content as a byte vector and the frame layout recomputed by an
 * independent frame walk.  Oracles: archive = valid zstd frames + seek table, a regular decoder regenerates the content,
 * accessors agree with the frame walk, every range read that reports success returns exactly the model's slice (also
 * after an earlier failed operation), fault-free reads of an intact archive succeed; corrupted archives: memory-safe,
 * and with checksums a whole-frame read never returns other bytes as success when only frame data was damaged. */
#define _GNU_SOURCE
#include <stdio.h>
#include "../io/sess.h"
#include "scenarios.h"
#include "zstd_seekable.h"

typedef struct { const uint8_t* data; size_t size, pos; long ops, fail_at, fail_at2; int short_reads; long failed; Rng r; } SimFile;

static int sf_fault(SimFile* f) { f->ops++; if ((f->fail_at && f->ops == f->fail_at) || (f->fail_at2 && f->ops == f->fail_at2)) { f->failed++; sim_fault_fired("storage_io_error"); return 1; } return 0; }
/* callback access */
static int cb_read(void* o, void* buf, size_t n) { SimFile* f = (SimFile*)o; if (sf_fault(f)) return -1; if (n > f->size - f->pos) { sim_probe("c20.read_past_end"); return -1; } memcpy(buf, f->data + f->pos, n); f->pos += n; return 0; }
static int cb_seek(void* o, long long off, int origin) { SimFile* f = (SimFile*)o; long long np; if (sf_fault(f)) return -1; np = origin == SEEK_SET ? off : origin == SEEK_END ? (long long)f->size + off : (long long)f->pos + off; if (np < 0 || (unsigned long long)np > f->size) { sim_probe("c20.seek_out_of_file"); return -1; } f->pos = (size_t)np; return 0; }
/* stdio access (fopencookie) */
static ssize_t ck_read(void* o, char* buf, size_t n) { SimFile* f = (SimFile*)o; size_t m = f->size - f->pos; if (sf_fault(f)) return -1; if (n < m) m = n; if (f->short_reads && m > 1 && rng_coin(&f->r, 1, 3)) { m = 1 + (size_t)rng_below(&f->r, m); sim_fault_fired("storage_short_read"); } memcpy(buf, f->data + f->pos, m); f->pos += m; return (ssize_t)m; }
static int ck_seek(void* o, off64_t* off, int origin) { SimFile* f = (SimFile*)o; long long np; if (sf_fault(f)) return -1; np = origin == SEEK_SET ? *off : origin == SEEK_END ? (long long)f->size + *off : (long long)f->pos + *off; if (np < 0 || (unsigned long long)np > f->size) return -1; f->pos = (size_t)np; *off = np; return 0; }

static void gen(Plan* p, Rng* r, int tier, long idx) {
    size_t n; unsigned mfs; int k, nops;
    plan_set(p, "in_kind", (int64_t)rng_below(r, GEN_NKINDS));
    switch (rng_below(r, 6)) { case 0: mfs = 1 + (unsigned)rng_below(r, 64); break; case 1: mfs = 64 + (unsigned)rng_below(r, 4000); break; case 2: mfs = 1u << 30; break; case 3: mfs = 0; break; default: mfs = 1024 + (unsigned)rng_below(r, 200000); break; }
    n = rng_size(r, tier ? (2u << 20) : (300u << 10)); if (mfs && mfs < 64 && n > 12000) n = rng_below(r, 12000);
    if ((idx % 8) == 5) { mfs = (128u << 10) * (1 + (unsigned)rng_below(r, 2)); n = (size_t)mfs * 2 + (size_t)rng_below(r, 40000); if (!tier && n > (420u << 10)) n = 420u << 10; }   /* frames whose content is a whole number of blocks: they end with an empty block */
    plan_set(p, "in_size", (int64_t)n); plan_set(p, "in_seed", (int64_t)(rng_u64(r) >> 2));
    plan_set(p, "mfs", mfs); plan_set(p, "cksum", (int64_t)rng_below(r, 2)); plan_set(p, "level", rng_range(r, 1, 6));
    /* writer history: "cw in_len out_cap" slices, "ef" explicit frame ends */
    nops = (int)rng_range(r, 0, 10);
    for (k = 0; k < nops; k++) { if (rng_coin(r, 1, 4)) plan_add(p, "ef", 1, (int64_t)rng_range(r, 1, 200)); else plan_add(p, "cw", 3, (int64_t)rng_chunk(r, n + 1, 30000), (int64_t)(rng_coin(r, 1, 3) ? 1 + rng_below(r, 40) : 1 + rng_below(r, 100000)), (int64_t)rng_range(r, 1, 8)); }
    plan_set(p, "fin_in", (int64_t)(1 + rng_chunk(r, n + 1, 60000))); plan_set(p, "fin_out", rng_coin(r, 1, 3) ? 1 + (int64_t)rng_below(r, 30) : 64 + (int64_t)rng_below(r, 200000));
    plan_set(p, "access", (int64_t)(idx % 3));   /* 0 memory, 1 stdio FILE, 2 callbacks */
    plan_set(p, "short_reads", rng_coin(r, 1, 3));
    /* reader history */
    nops = (int)rng_range(r, 3, tier ? 60 : 30);
    for (k = 0; k < nops; k++) {
        int const kind = (int)rng_below(r, 10);
        if (kind == 0) plan_add(p, "rf", 1, (int64_t)rng_below(r, 1 << 20));
        else plan_add(p, "rd", 3, (int64_t)rng_below(r, 1 << 30), (int64_t)(rng_coin(r, 1, 4) ? rng_below(r, 4) : rng_coin(r, 1, 2) ? rng_below(r, 3000) : rng_below(r, 1 << 20)), (int64_t)rng_below(r, 8));   /* position seed, length, placement: 0 random 1 continue 2 frame start 3 frame end-len 4 backwards 5 tail 6,7 whole frames: from a frame start to the end of the same or a later frame */
    }
    /* storage faults (one run in three) and archive corruption (one run in four, separately) */
    plan_set(p, "io_fail", (idx / 3) % 3 == 1 ? 1 + (int64_t)rng_below(r, 40) : 0); plan_set(p, "io_fail2", rng_coin(r, 1, 2) ? 1 + (int64_t)rng_below(r, 200) : 0);
    plan_set(p, "corrupt", (idx / 3) % 4 == 2 ? 1 + (int64_t)rng_below(r, 6) : 0); plan_set(p, "corrupt_seed", (int64_t)(rng_u64(r) >> 2));
    plan_set(p, "reinit", rng_coin(r, 1, 6));
}

typedef struct { size_t c_off, c_size, d_off, d_size; } FrameRec;

static void exec(const Plan* p) {
    Sess s; ZSTD_seekable_CStream* zcs; uint8_t* arch; size_t acap, an = 0, ipos = 0; int i; const char* e; FrameRec* fr = NULL; size_t nfr = 0, cfr = 0;
    unsigned const mfs = (unsigned)plan_get(p, "mfs", 0); int const cksum = (int)plan_get(p, "cksum", 0), access = (int)plan_get(p, "access", 0), corrupt = (int)plan_get(p, "corrupt", 0);
    SimFile sf; FILE* fp = NULL; ZSTD_seekable* zs; size_t r; size_t cursor = 0; uint8_t* work = NULL; size_t table_start = 0;
    sess_init(&s); sess_make_input(&s, p);
    acap = ZSTD_compressBound(s.in_size) + 64; { size_t const frames = mfs ? s.in_size / mfs + 2 : 2; acap += frames * 40 + 12 * 16 * 12 + 4096; }
    arch = (uint8_t*)malloc(acap);
    /* ---------------- writer ---------------- */
    zcs = ZSTD_seekable_createCStream();
    if (!zcs) sim_violation("harness", "no seekable cstream");
    r = ZSTD_seekable_initCStream(zcs, (int)plan_get(p, "level", 3), cksum, mfs);
    if (ZSTD_isError(r)) { if (mfs > (1u << 30)) { sim_probe("c20.maxframesize_refused"); ZSTD_seekable_freeCStream(zcs); free(arch); sess_free(&s); return; } sim_violation("writer_error", "initCStream(level %d, checksum %d, maxFrameSize %u): %s", (int)plan_get(p, "level", 3), cksum, mfs, ZSTD_getErrorName(r)); }
    for (i = 0; i <= p->nops; i++) {
        const PlanOp* o = i < p->nops ? &p->ops[i] : NULL; long rep, k2; size_t in_len, out_cap; int is_fin = (o == NULL);
        if (o && !strcmp(o->kind, "ef")) { long guard = 0; for (;;) { uint8_t* ob = (uint8_t*)sess_buf_get(1, (size_t)(o->a[0] < 1 ? 1 : o->a[0])); ZSTD_outBuffer out; out.dst = ob; out.size = (size_t)(o->a[0] < 1 ? 1 : o->a[0]); out.pos = 0; r = ZSTD_seekable_endFrame(zcs, &out);
                if ((e = sim_buf_check(ob)) != NULL) sim_violation("dst_overrun", "endFrame: %s", e); if (ZSTD_isError(r)) sim_violation("writer_error", "endFrame: %s", ZSTD_getErrorName(r)); if (an + out.pos > acap) sim_violation("harness", "archive capacity"); memcpy(arch + an, ob, out.pos); an += out.pos; if (r == 0) break; if (++guard > 1000000) sim_violation("no_progress", "endFrame never completes"); } sim_probe("c20.explicit_end_frame"); continue; }
        if (o && strcmp(o->kind, "cw")) continue;
        in_len = is_fin ? (size_t)plan_get(p, "fin_in", 4096) : (size_t)(o->a[0] < 1 ? 1 : o->a[0]); out_cap = is_fin ? (size_t)plan_get(p, "fin_out", 4096) : (size_t)(o->a[1] < 1 ? 1 : o->a[1]); rep = is_fin ? (1L << 40) : (o->a[2] < 1 ? 1 : o->a[2]);
        if (in_len < 1) in_len = 1; if (out_cap < 1) out_cap = 1;
        for (k2 = 0; k2 < rep && ipos < s.in_size; k2++) {
            size_t n = s.in_size - ipos < in_len ? s.in_size - ipos : in_len; ZSTD_inBuffer in; long guard = 0; in.src = s.in + ipos; in.size = n; in.pos = 0;
            while (in.pos < in.size) { uint8_t* ob = (uint8_t*)sess_buf_get(1, out_cap); ZSTD_outBuffer out; size_t before = in.pos; out.dst = ob; out.size = out_cap; out.pos = 0; r = ZSTD_seekable_compressStream(zcs, &out, &in);
                if ((e = sim_buf_check(ob)) != NULL) sim_violation("dst_overrun", "compressStream: %s", e); if (ZSTD_isError(r)) sim_violation("writer_error", "compressStream: %s", ZSTD_getErrorName(r)); if (in.pos > in.size || out.pos > out.size) sim_violation("cursor_overrun", "seekable compressStream moved a cursor beyond its limit");
                if (an + out.pos > acap) sim_violation("harness", "archive capacity (%zu)", acap); memcpy(arch + an, ob, out.pos); an += out.pos; if (in.pos == before && out.pos == 0 && ++guard > 100000) sim_violation("no_progress", "seekable compressStream makes no progress"); }
            ipos += n;
        }
        if (is_fin) break;
    }
    { long guard = 0; size_t out_cap = (size_t)plan_get(p, "fin_out", 4096); if (out_cap < 1) out_cap = 1;
      for (;;) { uint8_t* ob = (uint8_t*)sess_buf_get(1, out_cap); ZSTD_outBuffer out; out.dst = ob; out.size = out_cap; out.pos = 0; r = ZSTD_seekable_endStream(zcs, &out);
        if ((e = sim_buf_check(ob)) != NULL) sim_violation("dst_overrun", "endStream: %s", e); if (ZSTD_isError(r)) sim_violation("writer_error", "endStream: %s", ZSTD_getErrorName(r)); if (an + out.pos > acap) sim_violation("harness", "archive capacity"); memcpy(arch + an, ob, out.pos); an += out.pos; if (r == 0) break; if (out.pos == 0 && ++guard > 100000) sim_violation("no_progress", "endStream never completes"); } }
    ZSTD_seekable_freeCStream(zcs);
    /* ---------------- the archive: frames + seek table, regular decoder, independent layout ---------------- */
    {   size_t ip = 0; int last_skippable = 0;
        while (ip < an) { FwFrame f; int const pr = fw_parse(arch + ip, an - ip, 0, &f); if (pr != 0) sim_violation("archive_framing", "bytes at %zu of the archive are not a complete frame", ip);
            last_skippable = (f.kind == 1); if (f.kind == 1) table_start = ip;
            if (f.kind != 1) { unsigned long long const cs = ZSTD_getFrameContentSize(arch + ip, f.total_size); size_t ds; if (nfr == cfr) { cfr = cfr ? cfr * 2 : 64; fr = (FrameRec*)realloc(fr, cfr * sizeof *fr); }
                if (cs == ZSTD_CONTENTSIZE_ERROR) sim_violation("archive_framing", "frame at %zu has no readable header", ip);
                if (cs == ZSTD_CONTENTSIZE_UNKNOWN) { uint8_t* tmp = (uint8_t*)malloc(s.in_size + 1); size_t const q = ZSTD_decompress(tmp, s.in_size, arch + ip, f.total_size); free(tmp); if (ZSTD_isError(q)) sim_violation("archive_framing", "frame at %zu does not decode: %s", ip, ZSTD_getErrorName(q)); ds = q; } else ds = (size_t)cs;
                fr[nfr].c_off = ip; fr[nfr].c_size = f.total_size; fr[nfr].d_off = nfr ? fr[nfr - 1].d_off + fr[nfr - 1].d_size : 0; fr[nfr].d_size = ds; nfr++; }
            ip += f.total_size; fw_free(&f); }
        if (!last_skippable) sim_violation("archive_no_seek_table", "the archive does not end with a skippable frame (seek table)");
        sess_check_conformance(arch, an, s.in, s.in_size, NULL, 0, 0, 0, 0, 0, NULL);
        sess_check_lib_roundtrip(arch, an, s.in, s.in_size, NULL, 0, 0, 0);
        if (mfs) { size_t k2; for (k2 = 0; k2 < nfr; k2++) if (fr[k2].d_size > mfs) sim_violation("frame_too_large", "frame %zu holds %zu bytes, maxFrameSize %u", k2, fr[k2].d_size, mfs); }
        sim_probe_n("c20.frames", (long)nfr);
    }
    /* ---------------- storage + corruption ---------------- */
    work = (uint8_t*)sim_buf_new(an ? an : 1); memcpy(work, arch, an);
    {   size_t wn = an;
        if (corrupt) { Rng rc; size_t const tlen = an - table_start; rng_seed(&rc, (uint64_t)plan_get(p, "corrupt_seed", 1), "corrupt");
            switch (corrupt) {
            case 1: work[table_start + 8 + rng_below(&rc, tlen > 17 ? tlen - 17 : 1)] ^= (uint8_t)(1u << rng_below(&rc, 8)); sim_fault_fired("archive_seektable_entry_flip"); break;
            case 2: work[an - 9 + rng_below(&rc, 9)] ^= (uint8_t)(1u << rng_below(&rc, 8)); sim_fault_fired("archive_footer_flip"); break;
            case 3: if (table_start) { work[rng_below(&rc, table_start)] ^= (uint8_t)(1u << rng_below(&rc, 8)); sim_fault_fired("archive_frame_data_flip"); } break;
            case 4: wn = (size_t)rng_below(&rc, an); sim_fault_fired("archive_truncated"); break;
            case 5: { uint32_t v = (uint32_t)rng_u64(&rc); if (rng_coin(&rc, 1, 2)) v = (uint32_t)rng_below(&rc, 70000); memcpy(work + an - 9, &v, 4); sim_fault_fired("archive_frame_count_lie"); break; }
            default: { size_t k2, nb = 1 + (size_t)rng_below(&rc, 8); for (k2 = 0; k2 < nb; k2++) work[rng_below(&rc, an)] = (uint8_t)rng_u64(&rc); sim_fault_fired("archive_random_bytes"); break; }
            }
        }
        memset(&sf, 0, sizeof sf); sf.data = work; sf.size = wn; sf.short_reads = (int)plan_get(p, "short_reads", 0); rng_seed(&sf.r, (uint64_t)plan_get(p, "corrupt_seed", 1), "shortreads");
        if (access != 0) { sf.fail_at = (long)plan_get(p, "io_fail", 0); sf.fail_at2 = sf.fail_at ? (long)plan_get(p, "io_fail2", 0) : 0; }
    }
    zs = ZSTD_seekable_create();
    if (!zs) sim_violation("harness", "no seekable");
    {   int tries = 0;
        for (;;) {
            if (access == 0) r = ZSTD_seekable_initBuff(zs, work, sf.size);
            else if (access == 1) { cookie_io_functions_t io; memset(&io, 0, sizeof io); io.read = ck_read; io.seek = ck_seek; if (fp) fclose(fp); sf.pos = 0; fp = fopencookie(&sf, "rb", io); if (!fp) sim_violation("harness", "fopencookie"); r = ZSTD_seekable_initFile(zs, fp); }
            else { ZSTD_seekable_customFile cf; cf.opaque = &sf; cf.read = cb_read; cf.seek = cb_seek; r = ZSTD_seekable_initAdvanced(zs, cf); }
            if (!ZSTD_isError(r)) break;
            if (corrupt) { sim_probe("c20.corrupt_archive_refused_at_init"); sim_mark_nontrivial(); goto done; }
            if (!sf.failed || ++tries > 3) sim_violation("reader_init_error", "init on an intact archive (%zu bytes, %zu frames, access %d) fails: %s", an, nfr, access, ZSTD_getErrorName(r));
            sim_probe("c20.init_failed_on_io_error");   /* storage fault during table load: retry must work */
        }
    }
    if (!corrupt) {   /* accessors against the independent layout */
        unsigned k2; if (ZSTD_seekable_getNumFrames(zs) != nfr) sim_violation("seek_table_layout", "getNumFrames %u, archive has %zu frames", ZSTD_seekable_getNumFrames(zs), nfr);
        for (k2 = 0; k2 < nfr; k2++) {
            if (k2 > 64 && (k2 % 37)) continue;
            if (ZSTD_seekable_getFrameCompressedOffset(zs, k2) != fr[k2].c_off || ZSTD_seekable_getFrameDecompressedOffset(zs, k2) != fr[k2].d_off || ZSTD_seekable_getFrameCompressedSize(zs, k2) != fr[k2].c_size || ZSTD_seekable_getFrameDecompressedSize(zs, k2) != fr[k2].d_size)
                sim_violation("seek_table_layout", "frame %u: table says c %llu+%zu d %llu+%zu, archive has c %zu+%zu d %zu+%zu", k2, ZSTD_seekable_getFrameCompressedOffset(zs, k2), ZSTD_seekable_getFrameCompressedSize(zs, k2), ZSTD_seekable_getFrameDecompressedOffset(zs, k2), ZSTD_seekable_getFrameDecompressedSize(zs, k2), fr[k2].c_off, fr[k2].c_size, fr[k2].d_off, fr[k2].d_size);
            if (fr[k2].d_size && ZSTD_seekable_offsetToFrameIndex(zs, fr[k2].d_off) != k2 && !(k2 + 1 < nfr && fr[k2].d_size == 0)) { unsigned const got = ZSTD_seekable_offsetToFrameIndex(zs, fr[k2].d_off); if (got >= nfr || fr[got].d_off + fr[got].d_size <= fr[k2].d_off || fr[got].d_off > fr[k2].d_off) sim_violation("seek_table_layout", "offsetToFrameIndex(%zu) = %u, the byte is in frame %u", fr[k2].d_off, got, k2); }
        }
        { ZSTD_seekTable* st = ZSTD_seekTable_create_fromSeekable(zs); if (st) { if (ZSTD_seekTable_getNumFrames(st) != nfr) sim_violation("seek_table_layout", "copied seek table has %u frames", ZSTD_seekTable_getNumFrames(st)); if (nfr && ZSTD_seekTable_getFrameDecompressedOffset(st, (unsigned)nfr - 1) != fr[nfr - 1].d_off) sim_violation("seek_table_layout", "copied seek table differs"); ZSTD_seekTable_free(st); } }
    }
    /* ---------------- reader history ---------------- */
    for (i = 0; i < p->nops; i++) {
        const PlanOp* o = &p->ops[i]; long const failed_before = sf.failed;
        if (!strcmp(o->kind, "rf")) {
            unsigned fi = nfr ? (unsigned)((uint64_t)o->a[0] % (nfr + 1)) : 0; size_t want = fi < nfr ? fr[fi].d_size : 0; uint8_t* dst = (uint8_t*)sess_buf_get(4, want + (size_t)(o->a[0] & 3));
            r = ZSTD_seekable_decompressFrame(zs, dst, want + (size_t)(o->a[0] & 3), fi);
            if ((e = sim_buf_check(dst)) != NULL) sim_violation("dst_overrun", "decompressFrame(%u): %s", fi, e);
            if (!ZSTD_isError(r)) {
                if (fi >= nfr && !corrupt) sim_violation("frame_index_accepted", "decompressFrame(%u) succeeds, the archive has %zu frames", fi, nfr);
                if (!corrupt && (r != want || (want && memcmp(dst, s.in + fr[fi].d_off, want)))) sim_violation("wrong_data", "decompressFrame(%u) returns %zu bytes, expected %zu, or other content", fi, r, want);
                if (corrupt == 3 && cksum && fi < nfr && (r != want || (want && memcmp(dst, s.in + fr[fi].d_off, want)))) sim_violation("wrong_data_undetected", "frame data damaged, checksums on: decompressFrame(%u) reports success with other bytes", fi);
                sim_probe("c20.frame_reads_ok");
            } else if (!corrupt && fi < nfr && sf.failed == failed_before) sim_violation("read_error", "decompressFrame(%u) on an intact archive without storage fault: %s", fi, ZSTD_getErrorName(r));
            continue;
        }
        if (strcmp(o->kind, "rd")) continue;
        {   size_t len = (size_t)o->a[1], off; int const place = (int)o->a[2]; uint8_t* dst;
            if (len > s.in_size) len = s.in_size;
            switch (place) {
            case 1: off = cursor; break;
            case 2: off = nfr ? fr[(uint64_t)o->a[0] % nfr].d_off : 0; break;
            case 3: { size_t const fe = nfr ? fr[(uint64_t)o->a[0] % nfr].d_off + fr[(uint64_t)o->a[0] % nfr].d_size : 0; off = fe > len / 2 ? fe - len / 2 : 0; break; }
            case 4: off = cursor > len + 1 ? cursor - len - 1 - (size_t)((uint64_t)o->a[0] % (cursor - len)) % (cursor - len) : 0; break;
            case 5: off = s.in_size > len ? s.in_size - len : 0; break;
            case 6: case 7: if (nfr) { size_t const f0 = (size_t)((uint64_t)o->a[0] % nfr); size_t f1 = f0 + (size_t)(((uint64_t)o->a[0] >> 20) % 3); if (f1 >= nfr) f1 = nfr - 1; off = fr[f0].d_off; len = fr[f1].d_off + fr[f1].d_size - off; } else off = 0; break;
            default: off = s.in_size ? (size_t)((uint64_t)o->a[0] % s.in_size) : 0; break;
            }
            if (off > s.in_size) off = s.in_size; if (len > s.in_size - off) len = s.in_size - off;
            dst = (uint8_t*)sess_buf_get(4, len);
            r = ZSTD_seekable_decompress(zs, dst, len, off);
            if ((e = sim_buf_check(dst)) != NULL) sim_violation("dst_overrun", "decompress(off %zu, len %zu): %s", off, len, e);
            sim_event("rd off=%zu len=%zu -> %s", off, len, ZSTD_isError(r) ? ZSTD_getErrorName(r) : "ok");
            if (!ZSTD_isError(r)) {
                if (r > len) sim_violation("over_capacity", "decompress returned %zu > %zu", r, len);
                if (!corrupt && (r != len || (len && memcmp(dst, s.in + off, len)))) sim_violation("wrong_data", "read (offset %zu, length %zu) returns %zu bytes or other content (previous read ended at %zu, access %d, %zu frames, maxFrameSize %u)", off, len, r, cursor, access, nfr, mfs);
                if (corrupt == 3 && cksum && r == len) {   /* every frame that started and ended inside this call had its checksum within reach */
                    size_t k2; for (k2 = 0; k2 < nfr; k2++) if (fr[k2].d_size && fr[k2].d_off >= off && fr[k2].d_off + fr[k2].d_size <= off + len && memcmp(dst + (fr[k2].d_off - off), s.in + fr[k2].d_off, fr[k2].d_size))
                        sim_violation("wrong_data_undetected", "frame data damaged, checksums on: read (offset %zu, length %zu) covers frame %zu entirely and reports success with other bytes for it", off, len, k2);
                }
                cursor = off + r; sim_probe(sf.failed ? "c20.reads_ok_after_fault" : "c20.reads_ok");
            } else {
                if (!corrupt && sf.failed == failed_before) sim_violation("read_error", "read (offset %zu, length %zu) on an intact archive without storage fault: %s", off, len, ZSTD_getErrorName(r));
                sim_probe(corrupt ? "c20.read_refused_corrupt" : "c20.read_failed_on_io_error");
            }
        }
        if (plan_get(p, "reinit", 0) && i == p->nops / 2 && access == 0 && !corrupt) { r = ZSTD_seekable_initBuff(zs, work, sf.size); if (ZSTD_isError(r)) sim_violation("reader_init_error", "re-init: %s", ZSTD_getErrorName(r)); cursor = 0; sim_probe("c20.reinit"); }
    }
    sim_mark_nontrivial();
done:
    ZSTD_seekable_free(zs); if (fp) fclose(fp);
    if ((e = sim_buf_check(work)) != NULL) sim_violation("src_overrun", "archive buffer: %s", e);
    sim_buf_free(work); free(arch); free(fr); sess_buf_cache_drop(); sess_free(&s);
}
const Scenario scen_c20seek = { "c20seek", "C20", gen, exec };
