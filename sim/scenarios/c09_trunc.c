/* c09_trunc.c — C09: truncation, size lies and checksum damage are reported, never accepted (fault enumeration).
 * The wire between a producer and the decoder is cut at EVERY byte position of generated frames (producer crash /
 * torn tail), every bit of a stored checksum is flipped, sampled content bits are flipped, garbage is appended, and
 * the compressor is lied to about the source size.  Oracles:
 *   cut at k inside a frame: one-shot decode fails; streaming decode (any segmentation) ends with a non-zero return
 *     and reports exactly as many completed frames as the prefix really contains; buffer-less decoding never reaches
 *     "nothing more expected"; findFrameCompressedSize fails on the partial frame
 *   any mutation: success is only allowed if the output has the declared content size and the declared checksum
 *     (own XXH64), unless ZSTD_d_forceIgnoreChecksum
 *   trailing non-frame bytes: one-shot decode fails
 *   pledged size != supplied size: compression fails by the end of the frame */
#include "../io/sess.h"
#include "scenarios.h"

static void gen(Plan* p, Rng* r, int tier, long idx) {
    size_t maxsz = tier ? 60000 : 12000; int shape = (int)(idx % 10);
    (void)idx;
    sess_gen_input_params(p, r, maxsz);
    if (rng_coin(r, 1, 2)) plan_set(p, "in_size", (int64_t)rng_below(r, 700));
    if (shape == 1) plan_set(p, "in_size", 0);
    if (shape == 2) plan_set(p, "in_kind", GEN_RANDOM);                  /* raw blocks */
    if (shape == 3) plan_set(p, "in_kind", GEN_RLE);                     /* rle blocks */
    sess_gen_cparams(p, r, GP_NOMT);
    plan_set(p, "c.checksumFlag", (int64_t)rng_below(r, 2));
    plan_set(p, "c.contentSizeFlag", (int64_t)rng_below(r, 2));
    if (shape == 4) plan_set(p, "c.format", 1);
    if (shape == 5) { plan_set(p, "c.maxBlockSize", 1024 + (int64_t)rng_below(r, 3000)); if (plan_get(p, "in_size", 0) < 6000) plan_set(p, "in_size", rng_range(r, 6000, (int64_t)maxsz)); }
    if (shape == 6 || rng_coin(r, 1, 6)) { plan_set(p, "dict_kind", rng_range(r, 1, 2)); plan_set(p, "dict_size", (int64_t)(64 + rng_size(r, 20000))); plan_set(p, "dict_seed", (int64_t)(rng_u64(r) >> 2)); plan_set(p, "dict_id", rng_coin(r, 1, 2) ? rng_range(r, 1, 255) : rng_range(r, 256, 1 << 30)); }
    if (shape == 7) plan_set(p, "nframes", 2 + (int64_t)rng_below(r, 2));
    if (shape == 8) plan_set(p, "skippable", 1);
    if (shape == 9) plan_set(p, "stream_compress", 1);                   /* frame without content size, produced with flushes */
    plan_set(p, "seg_in", rng_coin(r, 1, 3) ? 1 : (int64_t)(1 + rng_chunk(r, 4096, 64)));
    plan_set(p, "seg_out", rng_coin(r, 1, 4) ? 1 + (int64_t)rng_below(r, 8) : (int64_t)(1 + rng_chunk(r, 1 << 17, 1 << 12)));
    plan_set(p, "flip_seed", (int64_t)(rng_u64(r) >> 2));
    if (shape == 9 && rng_coin(r, 1, 2)) plan_set(p, "empty_last_block", 1);       /* flush everything, then end: the frame closes with an empty last block */
    if (rng_coin(r, 1, 3)) plan_set(p, "ignore_checksum", 1);                    /* decoder parameters are part of "any decoding entry point" */
    if (rng_coin(r, 1, 6)) plan_set(p, "no_huf_asm", 1);
}

typedef struct { const Plan* p; Sess s; size_t* frame_ends; int* frame_skippable; int nfe; int magicless; long cuts, flips, accepted_ok; } T;

static ZSTD_DCtx* mk_dctx(T* t) {
    ZSTD_DCtx* d = ZSTD_createDCtx_advanced(sess_cmem());
    if (t->magicless) ZSTD_DCtx_setParameter(d, ZSTD_d_format, ZSTD_f_zstd1_magicless);
    if (t->s.dict) ZSTD_DCtx_loadDictionary(d, t->s.dict, t->s.dict_size);
    if (plan_get(t->p, "ignore_checksum", 0)) ZSTD_DCtx_setParameter(d, ZSTD_d_forceIgnoreChecksum, ZSTD_d_ignoreChecksum);
    if (plan_get(t->p, "no_huf_asm", 0)) ZSTD_DCtx_setParameter(d, ZSTD_d_disableHuffmanAssembly, 1);
    return d;
}
static int frames_in_prefix(T* t, size_t k, int* at_boundary) { int i, n = 0; *at_boundary = (k == 0); for (i = 0; i < t->nfe; i++) { if (t->frame_ends[i] <= k) n++; if (t->frame_ends[i] == k) *at_boundary = 1; } return n; }

static void check_cut(T* t, ZSTD_DCtx* d, size_t k, uint8_t* out, size_t outcap) {
    int boundary; int const complete = frames_in_prefix(t, k, &boundary); size_t r; const uint8_t* w = t->s.wire;
    if (boundary) return;                     /* cut between frames: a valid shorter stream, not a proper prefix of a frame */
    t->cuts++;
    ZSTD_DCtx_reset(d, ZSTD_reset_session_only);
    /* (1) one-shot */
    { uint8_t* src = (uint8_t*)sess_buf_get(0, k); memcpy(src, w, k);
      r = ZSTD_decompressDCtx(d, out, outcap, src, k);
      if (!ZSTD_isError(r)) sim_violation("truncated_accepted_oneshot", "one-shot decode of the first %zu of %zu bytes (cut inside frame %d) returned success (%zu bytes)", k, t->s.wire_size, complete, r);
      if (sim_buf_check(src)) sim_violation("src_overrun", "%s", sim_buf_check(src)); }
    /* (2) streaming under the plan's segmentation */
    { size_t pos = 0; size_t seg_in = (size_t)plan_get(t->p, "seg_in", 64), seg_out = (size_t)plan_get(t->p, "seg_out", 4096); int zeros = 0; size_t last = 1; long guard = 0, idle = 0;
      if (seg_in < 1) seg_in = 1; if (seg_out < 1) seg_out = 1;
      ZSTD_DCtx_reset(d, ZSTD_reset_session_only);
      while (1) {
          ZSTD_inBuffer in; ZSTD_outBuffer o; size_t n = k - pos < seg_in ? k - pos : seg_in; uint8_t* src = (uint8_t*)sess_buf_get(2, n); uint8_t* dst = (uint8_t*)sess_buf_get(3, seg_out);
          if (n) memcpy(src, w + pos, n);
          in.src = src; in.size = n; in.pos = 0; o.dst = dst; o.size = seg_out; o.pos = 0;
          r = ZSTD_decompressStream(d, &o, &in);
          if (sim_buf_check(dst)) sim_violation("dst_overrun", "%s", sim_buf_check(dst));
          if (ZSTD_isError(r)) { last = r; break; }           /* an error is an acceptable report */
          pos += in.pos; last = r;
          if (r == 0) zeros++;
          if (in.pos == 0 && o.pos == 0) { if (pos == k && ++idle >= 2) break; if (++idle > 20) break; } else idle = 0;
          if (++guard > 4000000) sim_violation("livelock", "streaming decode of a truncated stream does not terminate");
      }
      if (!ZSTD_isError(last)) {
          if (zeros > complete) sim_violation("truncated_accepted_stream", "streaming decode of the first %zu of %zu bytes reported %d completed frames, the prefix holds %d", k, t->s.wire_size, zeros, complete);
          if (last == 0) sim_violation("truncated_accepted_stream", "streaming decode of the first %zu of %zu bytes (cut inside frame %d) ended with return value 0 = frame complete", k, t->s.wire_size, complete);
      }
    }
    /* (3) frame size inspector on the partial frame */
    { size_t fstart = complete ? t->frame_ends[complete - 1] : 0; size_t fr;
      if (!t->magicless) { fr = ZSTD_findFrameCompressedSize(w + fstart, k - fstart); if (!ZSTD_isError(fr)) sim_violation("truncated_accepted_inspector", "findFrameCompressedSize on %zu bytes of a frame of %zu bytes returned %zu", k - fstart, t->frame_ends[complete] - fstart, fr); } }
}

/* buffer-less decoding of a truncated single frame: never reaches "nothing more expected" */
static void check_cut_bufferless(T* t, size_t k, uint8_t* out, size_t outcap) {
    ZSTD_DCtx* d; size_t pos = 0, op = 0; const uint8_t* w = t->s.wire; int boundary;
    if (t->nfe != 1 || t->frame_skippable[0] || t->magicless) return;
    (void)frames_in_prefix(t, k, &boundary); if (boundary) return;
    d = ZSTD_createDCtx_advanced(sess_cmem());
    if (plan_get(t->p, "ignore_checksum", 0)) ZSTD_DCtx_setParameter(d, ZSTD_d_forceIgnoreChecksum, ZSTD_d_ignoreChecksum);
    if (t->s.dict) ZSTD_decompressBegin_usingDict(d, t->s.dict, t->s.dict_size); else ZSTD_decompressBegin(d);
    for (;;) {
        size_t const want = ZSTD_nextSrcSizeToDecompress(d); size_t r;
        if (want == 0) sim_violation("truncated_accepted_bufferless", "decompressContinue reports the frame complete after %zu of %zu bytes", pos, t->s.wire_size);
        if (want > k - pos) break;        /* producer is gone: the reader cannot supply what is asked for */
        r = ZSTD_decompressContinue(d, out + op, outcap - op, w + pos, want);
        if (ZSTD_isError(r)) break;
        pos += want; op += r;
    }
    ZSTD_freeDCtx(d);
    sim_probe("c09.bufferless_cuts");
}

static void check_mutation(T* t, ZSTD_DCtx* d, const uint8_t* mut, size_t n, uint8_t* out, size_t outcap, const char* what, size_t where) {
    /* success is only allowed if the declared size and checksum hold for what was produced */
    size_t r; size_t ip = 0, op = 0;
    r = ZSTD_decompressDCtx(d, out, outcap, mut, n);
    if (ZSTD_isError(r)) return;
    t->accepted_ok++;
    while (ip < n) {
        FwFrame f; RefInfo info; size_t produced;
        if (fw_parse(mut + ip, n - ip, t->magicless, &f) != 0) sim_violation("mutation_accepted", "%s at %zu: decoder returned success on bytes that are not a sequence of frames", what, where);
        if (f.kind == 1) { ip += f.total_size; fw_free(&f); continue; }
        /* produced size of this frame: from the declared size, else via the independent decoder */
        if (f.has_fcs) produced = (size_t)f.fcs;
        else { if (refdec_frame(NULL, 0, mut + ip, f.total_size, t->s.dict, t->s.dict_size, t->magicless, &info) == 0) produced = info.produced; else { uint8_t* tmp = (uint8_t*)malloc(outcap + 1); if (refdec_frame(tmp, outcap, mut + ip, f.total_size, t->s.dict, t->s.dict_size, t->magicless, &info) != 0) { free(tmp); refdec_info_free(&info); fw_free(&f); return; } produced = info.produced; free(tmp); } refdec_info_free(&info); }
        if (op + produced > r) sim_violation("size_lie_accepted", "%s at %zu: success with %zu bytes although the frames declare more", what, where, r);
        if (f.checksum_flag && !plan_get(t->p, "ignore_checksum", 0)) { uint32_t const c = (uint32_t)ref_xxh64(out + op, produced, 0); if (c != f.stored_checksum) sim_violation("checksum_damage_accepted", "%s at %zu: decode succeeded although XXH64 of the output (%08x) differs from the stored checksum (%08x)", what, where, c, f.stored_checksum); }
        op += produced; ip += f.total_size; fw_free(&f);
    }
    if (op != r) sim_violation("size_lie_accepted", "%s at %zu: decode returned %zu bytes, frames declare %zu", what, where, r, op);
}

static void exec(const Plan* p) {
    T t; ZSTD_CCtx* c; ZSTD_DCtx* d; size_t r; int nframes = (int)plan_get(p, "nframes", 1), f; uint8_t* out; size_t outcap; size_t k; const char* e; Rng fr;
    memset(&t, 0, sizeof t); t.p = p; sess_init(&t.s);
    sess_make_input(&t.s, p); sess_make_dict(&t.s, p);
    t.magicless = sess_get_cparam(p, "format", 0) == 1; t.s.magicless = t.magicless;
    if (nframes < 1) nframes = 1; if (nframes > 4) nframes = 4;
    c = ZSTD_createCCtx_advanced(sess_cmem());
    sess_apply_cparams(c, p); ZSTD_CCtx_setParameter(c, ZSTD_c_nbWorkers, 0);
    if (t.s.dict) ZSTD_CCtx_loadDictionary(c, t.s.dict, t.s.dict_size);
    /* build the wire: nframes frames over slices of the input, optional skippable frame in between */
    { size_t per = t.s.in_size / (size_t)nframes, pos = 0; uint8_t* dst = (uint8_t*)malloc(ZSTD_compressBound(t.s.in_size) + 64);
      for (f = 0; f < nframes; f++) {
        size_t n = f == nframes - 1 ? t.s.in_size - pos : per;
        if (plan_get(p, "stream_compress", 0)) {
            ZSTD_inBuffer in; ZSTD_outBuffer o; size_t half = plan_get(p, "empty_last_block", 0) ? n : n / 2; in.src = t.s.in + pos; in.size = half; in.pos = 0; o.dst = dst; o.size = ZSTD_compressBound(t.s.in_size) + 64; o.pos = 0;
            r = ZSTD_compressStream2(c, &o, &in, ZSTD_e_flush); if (!ZSTD_isError(r)) { in.size = n; r = ZSTD_compressStream2(c, &o, &in, ZSTD_e_end); }
            if (ZSTD_isError(r) || r != 0) sim_violation("compress_error", "stream compression failed: %s", ZSTD_isError(r) ? ZSTD_getErrorName(r) : "incomplete"); r = o.pos;
        } else { r = ZSTD_compress2(c, dst, ZSTD_compressBound(t.s.in_size) + 64, t.s.in + pos, n); if (ZSTD_isError(r)) sim_violation("compress_error", "compress2 failed: %s", ZSTD_getErrorName(r)); }
        sess_wire_append(&t.s, dst, r); pos += n;
        if (plan_get(p, "skippable", 0) && !t.magicless && f == 0) { uint8_t sk[8 + 5] = { 0x53, 0x2A, 0x4D, 0x18, 5, 0, 0, 0, 1, 2, 3, 4, 5 }; sess_wire_append(&t.s, sk, sizeof sk); }
      }
      free(dst); }
    /* frame table from the independent walker */
    { size_t ip = 0; t.frame_ends = (size_t*)malloc(sizeof(size_t) * 16); t.frame_skippable = (int*)malloc(sizeof(int) * 16);
      while (ip < t.s.wire_size && t.nfe < 16) { FwFrame fw; if (fw_parse(t.s.wire + ip, t.s.wire_size - ip, t.magicless, &fw) != 0) sim_violation("conf_framing", "compressor output is not a frame sequence"); ip += fw.total_size; t.frame_skippable[t.nfe] = fw.kind; t.frame_ends[t.nfe++] = ip; fw_free(&fw); } }
    outcap = t.s.in_size + 64; out = (uint8_t*)sim_buf_new(outcap);
    d = mk_dctx(&t);
    /* sanity: the intact wire decodes */
    r = ZSTD_decompressDCtx(d, out, outcap, t.s.wire, t.s.wire_size);
    if (ZSTD_isError(r) || r != t.s.in_size || memcmp(out, t.s.in, r)) sim_violation("roundtrip_error", "intact wire does not round-trip: %s", ZSTD_isError(r) ? ZSTD_getErrorName(r) : "mismatch");
    /* (A) every cut point (all of them up to 6000 bytes, else header/trailer/block edges + a stride) */
    { size_t const n = t.s.wire_size; size_t const only = (size_t)plan_get(p, "only_k", 0); size_t stride = n <= 6000 ? 1 : n / 3000 + 1;
      for (k = 1; k < n; k++) {
          if (only && k != only) continue;
          if (stride > 1 && (k % stride) && k > 40 && k + 40 < n) continue;
          check_cut(&t, d, k, out, outcap);
          if (n <= 3000 || (k % 7) == 0) check_cut_bufferless(&t, k, out, outcap);
      }
      sim_event("cuts=%ld of %zu", t.cuts, n); sim_probe_n("c09.cut_points", t.cuts); if (stride == 1) sim_probe("c09.frames_cut_exhaustively"); }
    /* (B) trailing garbage */
    { uint8_t* g = (uint8_t*)malloc(t.s.wire_size + 8); size_t extra; memcpy(g, t.s.wire, t.s.wire_size);
      for (extra = 1; extra <= 5; extra++) { size_t i; for (i = 0; i < extra; i++) g[t.s.wire_size + i] = (uint8_t)(0x11 * (i + 1)); ZSTD_DCtx_reset(d, ZSTD_reset_session_only);
          r = ZSTD_decompressDCtx(d, out, outcap, g, t.s.wire_size + extra);
          if (!ZSTD_isError(r)) sim_violation("trailing_garbage_accepted", "one-shot decode succeeded with %zu non-frame bytes after the last frame", extra); }
      sim_probe("c09.trailing_garbage_cases"); free(g); }
    /* (C) checksum bits (all 32) and sampled content bits */
    { uint8_t* m = (uint8_t*)malloc(t.s.wire_size + 1); int b; size_t nflip; FwFrame fw; size_t fstart = 0; int fi;
      rng_seed(&fr, (uint64_t)plan_get(p, "flip_seed", 1), "flips");
      for (fi = 0; fi < t.nfe; fi++) {
          size_t fend = t.frame_ends[fi];
          if (!t.frame_skippable[fi] && fw_parse(t.s.wire + fstart, fend - fstart, t.magicless, &fw) == 0) {
              if (fw.checksum_flag) for (b = 0; b < 32; b++) {
                  memcpy(m, t.s.wire, t.s.wire_size); m[fend - 4 + b / 8] ^= (uint8_t)(1 << (b % 8)); ZSTD_DCtx_reset(d, ZSTD_reset_session_only);
                  r = ZSTD_decompressDCtx(d, out, outcap, m, t.s.wire_size);
                  if (!ZSTD_isError(r) && !plan_get(p, "ignore_checksum", 0)) sim_violation("checksum_damage_accepted", "frame %d: stored checksum bit %d flipped, decode still succeeds", fi, b);
                  t.flips++;
                  if (b == 0) { ZSTD_DCtx* di = mk_dctx(&t); ZSTD_DCtx_setParameter(di, ZSTD_d_forceIgnoreChecksum, ZSTD_d_ignoreChecksum); r = ZSTD_decompressDCtx(di, out, outcap, m, t.s.wire_size);
                      if (ZSTD_isError(r) || r != t.s.in_size) sim_violation("ignore_checksum_broken", "forceIgnoreChecksum: decode of a frame with a damaged checksum fails: %s", ZSTD_isError(r) ? ZSTD_getErrorName(r) : "size"); ZSTD_freeDCtx(di); }
              }
              fw_free(&fw);
          }
          fstart = fend;
      }
      nflip = t.s.wire_size < 400 ? t.s.wire_size * 2 : 800;
      for (k = 0; k < nflip && t.s.wire_size > 0; k++) { size_t at = rng_below(&fr, t.s.wire_size); int bit = (int)rng_below(&fr, 8);
          memcpy(m, t.s.wire, t.s.wire_size); m[at] ^= (uint8_t)(1 << bit); ZSTD_DCtx_reset(d, ZSTD_reset_session_only);
          check_mutation(&t, d, m, t.s.wire_size, out, outcap, "bit flip", at); t.flips++; }
      sim_probe_n("c09.bit_flips", t.flips); sim_probe_n("c09.mutations_still_accepted_consistently", t.accepted_ok); free(m); }
    /* (E) the header lies about the content size: Frame_Content_Size rewritten by +1 / -1 / +4096 in each frame that carries it.
     *     No decode path may report the frame complete: one-shot, streaming in pieces (no single-pass shortcut), buffer-less. */
    { uint8_t* m = (uint8_t*)malloc(t.s.wire_size + 1); size_t fstart = 0; int fi;
      for (fi = 0; fi < t.nfe; fi++) {
          size_t const fend = t.frame_ends[fi]; FwFrame fw;
          if (!t.frame_skippable[fi] && fw_parse(t.s.wire + fstart, fend - fstart, t.magicless, &fw) == 0) {
              int const width = fw.fcs_flag == 0 ? (fw.single_segment ? 1 : 0) : fw.fcs_flag == 1 ? 2 : fw.fcs_flag == 2 ? 4 : 8; static const long long deltas[3] = { 1, -1, 4096 }; int di;
              for (di = 0; di < 3 && width; di++) {
                  unsigned long long const nv = fw.fcs + (unsigned long long)deltas[di]; unsigned long long stored; size_t const at = fstart + fw.header_size - (size_t)width; int b; DecResult dr; Plan dp;
                  if (deltas[di] < 0 && fw.fcs == 0) continue;
                  if (width == 1 && nv > 255) continue; if (width == 2 && (nv < 256 || nv > 65535 + 256)) continue; if (width == 4 && nv > 0xFFFFFFFFull) continue;
                  stored = width == 2 ? nv - 256 : nv;
                  memcpy(m, t.s.wire, t.s.wire_size); for (b = 0; b < width; b++) m[at + (size_t)b] = (uint8_t)(stored >> (8 * b));
                  ZSTD_DCtx_reset(d, ZSTD_reset_session_only);
                  r = ZSTD_decompressDCtx(d, out, outcap, m, t.s.wire_size);
                  if (!ZSTD_isError(r)) sim_violation("size_lie_accepted", "frame %d declares %llu bytes instead of %llu: one-shot decode succeeds", fi, nv, (unsigned long long)fw.fcs);
                  ZSTD_DCtx_reset(d, ZSTD_reset_session_only);
                  plan_init(&dp, "x", 1); plan_set(&dp, "dfin_in", 1 + (int64_t)((fi * 37 + di * 11) % 900)); plan_set(&dp, "dfin_out", 1 + (int64_t)((fi * 53 + di * 7) % 3000));
                  sess_run_dhist(&dp, d, m, t.s.wire_size, t.magicless, 0, &dr); plan_free(&dp);
                  if (!dr.err && dr.consumed == t.s.wire_size && dr.frames_completed >= t.nfe - 0 - (int)0) { int nz = 0, q; for (q = 0; q < t.nfe; q++) nz += !t.frame_skippable[q]; if (dr.frames_completed >= t.nfe) sim_violation("size_lie_accepted", "frame %d declares %llu bytes instead of %llu: streaming decode in pieces reports every frame complete", fi, nv, (unsigned long long)fw.fcs); (void)nz; }
                  dec_result_free(&dr);
                  if (t.nfe == 1 && !t.magicless) {   /* buffer-less */
                      ZSTD_DCtx* bd = ZSTD_createDCtx_advanced(sess_cmem()); size_t pos = 0, op = 0; int complete = 0;
                      if (t.s.dict) ZSTD_decompressBegin_usingDict(bd, t.s.dict, t.s.dict_size); else ZSTD_decompressBegin(bd);
                      for (;;) { size_t const want = ZSTD_nextSrcSizeToDecompress(bd); size_t rr; if (want == 0) { complete = 1; break; } if (want > t.s.wire_size - pos) break; rr = ZSTD_decompressContinue(bd, out + op, outcap - op, m + pos, want); if (ZSTD_isError(rr)) break; pos += want; op += rr; }
                      if (complete) sim_violation("size_lie_accepted", "frame declares %llu bytes instead of %llu: buffer-less decode reports the frame complete after regenerating %zu bytes", nv, (unsigned long long)fw.fcs, op);
                      ZSTD_freeDCtx(bd);
                  }
                  sim_probe("c09.header_size_lies");
              }
              fw_free(&fw);
          }
          fstart = fend;
      }
      free(m); }
    /* (D) pledged source size lies */
    { size_t const n = t.s.in_size; unsigned long long lies[5]; int nl = 0, i; uint8_t* dst = (uint8_t*)malloc(ZSTD_compressBound(n) + 64);
      if (n > 0) lies[nl++] = 0; if (n > 0) lies[nl++] = n - 1; lies[nl++] = n + 1; lies[nl++] = 2 * (unsigned long long)n + 7;
      for (i = 0; i < nl; i++) {
          ZSTD_inBuffer in; ZSTD_outBuffer o; size_t half = n / 2; int failed = 0;
          ZSTD_CCtx_reset(c, ZSTD_reset_session_only);
          r = ZSTD_CCtx_setPledgedSrcSize(c, lies[i]); if (ZSTD_isError(r)) continue;
          in.src = t.s.in; in.size = half; in.pos = 0; o.dst = dst; o.size = ZSTD_compressBound(n) + 64; o.pos = 0;
          r = ZSTD_compressStream2(c, &o, &in, ZSTD_e_continue); if (ZSTD_isError(r)) failed = 1;
          if (!failed) { long g = 0; in.size = n; do { r = ZSTD_compressStream2(c, &o, &in, ZSTD_e_end); if (ZSTD_isError(r)) { failed = 1; break; } } while (r != 0 && ++g < 100000); }
          if (!failed) sim_violation("pledge_lie_accepted", "pledged %llu bytes, supplied %zu: compression reported success", lies[i], n);
          sim_probe("c09.pledge_lies");
      }
      /* truthful pledge and unknown pledge succeed */
      ZSTD_CCtx_reset(c, ZSTD_reset_session_only); ZSTD_CCtx_setPledgedSrcSize(c, n); r = ZSTD_compress2(c, dst, ZSTD_compressBound(n) + 64, t.s.in, n);
      if (ZSTD_isError(r)) sim_violation("pledge_truth_rejected", "pledged size equal to the supplied size is rejected: %s", ZSTD_getErrorName(r));
      free(dst); }
    if (t.cuts > 0) sim_mark_nontrivial();
    ZSTD_freeDCtx(d); ZSTD_freeCCtx(c); sim_buf_free(out); free(t.frame_ends); free(t.frame_skippable); sess_buf_cache_drop();
    if (sim_alloc_live_blocks() != 0) sim_violation("leak", "%ld allocator block(s) live at end", sim_alloc_live_blocks());
    if ((e = sim_alloc_check()) != NULL) sim_violation("heap_corruption", "%s", e);
    sess_free(&t.s);
}
const Scenario scen_c09trunc = { "c09trunc", "C09", gen, exec };
