/* simalloc.c — the allocator seam: a ZSTD_customMem the simulator owns.
 * fail-k-th / fail-by-size / budget / trap modes, live-set accounting (leaks, double free, foreign free),
 * canaries (poisoned under ASan), quarantine of freed blocks, placement perturbation, guarded caller buffers.
 * Compiled without -fsanitize=thread (infrastructure; callers are serialised by simsched). */
#define _GNU_SOURCE
#include "../core/sim.h"

extern void __asan_poison_memory_region(void const volatile* addr, size_t size) __attribute__((weak));
extern void __asan_unpoison_memory_region(void const volatile* addr, size_t size) __attribute__((weak));

#define HDR 64
#define TRL 32
#define A_MAGIC 0x5A414C4CU
#define F_MAGIC 0x46524545U
#define B_MAGIC 0x5A425546U
typedef struct Blk { uint32_t magic; uint32_t pad; size_t size; long index; struct Blk* prev; struct Blk* next; void* raw; uint64_t canary; } Blk;

static struct {
    Blk* live; long live_blocks; size_t live_bytes, peak_bytes;
    long calls, failed, trapped; long fail1, fail2; size_t fail_sz; long fail_sz_nth, sz_seen;
    size_t budget; int trap; unsigned pad16;
    Blk* quarantine; size_t q_bytes;
    char err[256];
} A;

static void poison(void* p, size_t n) { if (__asan_poison_memory_region) __asan_poison_memory_region(p, n); }
static void unpoison(void* p, size_t n) { if (__asan_unpoison_memory_region) __asan_unpoison_memory_region(p, n); }
static uint64_t canary_of(const Blk* b) { return 0xC0FFEE1234567890ULL ^ (uint64_t)(uintptr_t)b ^ b->size; }

static void flush_quarantine(void) {
    while (A.quarantine) { Blk* b = A.quarantine; unpoison(b->raw, HDR + b->pad + b->size + TRL); A.quarantine = b->next; free(b->raw); }
    A.q_bytes = 0;
}
void sim_alloc_reset(void) {
    flush_quarantine();
    /* blocks still live from a previous run are abandoned (the previous run reported them) */
    A.live = NULL; A.live_blocks = 0; A.live_bytes = A.peak_bytes = 0;
    A.calls = A.failed = A.trapped = 0; A.fail1 = A.fail2 = 0; A.fail_sz = 0; A.fail_sz_nth = 0; A.sz_seen = 0;
    A.budget = 0; A.trap = 0; A.pad16 = 0; A.err[0] = 0;
}
void sim_alloc_fail_at(long k, long k2) { A.fail1 = k; A.fail2 = k2; }
void sim_alloc_fail_size_ge(size_t sz, long nth) { A.fail_sz = sz; A.fail_sz_nth = nth; A.sz_seen = 0; }
void sim_alloc_budget(size_t bytes) { A.budget = bytes; }
void sim_alloc_trap(int on) { A.trap = on; }
void sim_alloc_placement(unsigned pad16) { A.pad16 = pad16 & 15; }
long sim_alloc_calls(void) { return A.calls; }
long sim_alloc_failed(void) { return A.failed; }
long sim_alloc_trapped(void) { return A.trapped; }
size_t sim_alloc_live_bytes(void) { return A.live_bytes; }
size_t sim_alloc_peak_bytes(void) { return A.peak_bytes; }
long sim_alloc_live_blocks(void) { return A.live_blocks; }

static void* do_alloc(void* opaque, size_t size) {
    char* raw; Blk* b; size_t pad = (size_t)A.pad16 * 16; char* user;
    (void)opaque;
    A.calls++;
    if (A.trap) { A.trapped++; snprintf(A.err, sizeof A.err, "allocator called (size %zu) while trapping", size); return NULL; }
    if ((A.fail1 && A.calls == A.fail1) || (A.fail2 && A.calls == A.fail2)) { A.failed++; sim_fault_fired("alloc_fail_kth"); return NULL; }
    if (A.fail_sz && size >= A.fail_sz) { A.sz_seen++; if (A.sz_seen == A.fail_sz_nth) { A.failed++; sim_fault_fired("alloc_fail_bysize"); return NULL; } }
    if (A.budget && A.live_bytes + size > A.budget) { A.failed++; sim_fault_fired("alloc_budget_refused"); return NULL; }
    raw = (char*)malloc(HDR + pad + size + TRL);
    if (!raw) return NULL;
    b = (Blk*)(raw + pad);
    user = raw + pad + HDR;
    b->magic = A_MAGIC; b->pad = (uint32_t)pad; b->size = size; b->index = A.calls; b->raw = raw; b->canary = canary_of(b);
    b->prev = NULL; b->next = A.live; if (A.live) A.live->prev = b; A.live = b;
    memset(user + size, 0xA5, TRL);
    memset(user, 0xCD, size);   /* allocator returns non-zero memory, the same in every process: uninitialised use shows and replays */
    A.live_blocks++; A.live_bytes += size; if (A.live_bytes > A.peak_bytes) A.peak_bytes = A.live_bytes;
    poison(raw, pad + HDR); poison(user + size, TRL);
    return user;
}
static const char* check_blk(Blk* b) {
    static char msg[160]; unsigned char* t = (unsigned char*)b + HDR + b->size; int i;
    if (b->canary != canary_of(b)) { snprintf(msg, sizeof msg, "header canary of allocation #%ld (size %zu) smashed", b->index, b->size); return msg; }
    for (i = 0; i < TRL; i++) if (t[i] != 0xA5) { snprintf(msg, sizeof msg, "trailer canary of allocation #%ld (size %zu) smashed at +%d", b->index, b->size, i); return msg; }
    return NULL;
}
static void do_free(void* opaque, void* p) {
    Blk* b; const char* e;
    (void)opaque;
    if (!p) return;
    b = (Blk*)((char*)p - HDR);
    unpoison(b, HDR);
    if (b->magic == F_MAGIC) { snprintf(A.err, sizeof A.err, "double free of allocation #%ld", b->index); poison(b, HDR); return; }
    if (b->magic != A_MAGIC) { snprintf(A.err, sizeof A.err, "free of a pointer not obtained from the custom allocator"); return; }
    unpoison((char*)p + b->size, TRL);
    e = check_blk(b);
    if (e && !A.err[0]) snprintf(A.err, sizeof A.err, "%s", e);
    if (b->prev) b->prev->next = b->next; else A.live = b->next;
    if (b->next) b->next->prev = b->prev;
    A.live_blocks--; A.live_bytes -= b->size;
    b->magic = F_MAGIC;
    unpoison(p, b->size);   /* zstd's workspace code poisons parts of its own blocks under ASan */
    memset(p, 0xDD, b->size < 256 ? b->size : 256);
    b->next = A.quarantine; A.quarantine = b; A.q_bytes += b->size + HDR + TRL;
    poison(b->raw, b->pad + HDR + b->size + TRL);
    if (A.q_bytes > ((size_t)192 << 20)) flush_quarantine();
}
SimCMem sim_cmem(void) { SimCMem m; m.customAlloc = do_alloc; m.customFree = do_free; m.opaque = &A; return m; }
const char* sim_alloc_check(void) {
    Blk* b;
    if (A.err[0]) return A.err;
    for (b = A.live; b; ) {
        Blk* nx; const char* e;
        unpoison(b, HDR); unpoison((char*)b + HDR + b->size, TRL);
        e = check_blk(b); nx = b->next;
        poison(b, HDR); poison((char*)b + HDR + b->size, TRL);
        if (e) return e;
        b = nx;
    }
    return NULL;
}
void sim_alloc_describe_live(char* buf, size_t n) {
    Blk* b; size_t k = 0; int c = 0;
    buf[0] = 0;
    for (b = A.live; b && c < 6 && k + 48 < n; c++) {
        Blk* nx;
        unpoison(b, HDR); k += (size_t)snprintf(buf + k, n - k, "#%ld(%zuB) ", b->index, b->size); nx = b->next; poison(b, HDR); b = nx;
    }
}

/* ---------------- guarded caller buffers ---------------- */
#define GZ 64
void* sim_buf_new(size_t n) {
    char* raw = (char*)malloc(GZ + n + GZ); size_t* h;
    if (!raw) { fprintf(stderr, "simalloc: out of memory for harness buffer\n"); _exit(70); }
    h = (size_t*)raw; h[0] = B_MAGIC; h[1] = n;
    memset(raw + 16, 0x5B, GZ - 16); memset(raw + GZ + n, 0x5B, GZ);
    poison(raw + 16, GZ - 16); poison(raw + GZ + n, GZ);
    return raw + GZ;
}
const char* sim_buf_check(void* p) {
    static char msg[128]; char* raw = (char*)p - GZ; size_t* h = (size_t*)raw; size_t n = h[1]; size_t i; const char* r = NULL;
    if (h[0] != B_MAGIC) return "guarded buffer header destroyed";
    unpoison(raw + 16, GZ - 16); unpoison(raw + GZ + n, GZ);
    for (i = 16; i < GZ; i++) if ((unsigned char)raw[i] != 0x5B) { snprintf(msg, sizeof msg, "write before buffer start (-%zu)", GZ - i); r = msg; break; }
    if (!r) for (i = 0; i < GZ; i++) if ((unsigned char)raw[GZ + n + i] != 0x5B) { snprintf(msg, sizeof msg, "write beyond buffer end (+%zu) of %zu-byte buffer", i, n); r = msg; break; }
    poison(raw + 16, GZ - 16); poison(raw + GZ + n, GZ);
    return r;
}
void sim_buf_free(void* p) {
    char* raw; size_t n;
    if (!p) return;
    raw = (char*)p - GZ; n = ((size_t*)raw)[1];
    unpoison(raw, GZ + n + GZ);
    free(raw);
}

/* ---------------- libc allocator seam (-Wl,--wrap=malloc,calloc,realloc,free) ----------------
 * For code that calls libc directly (dictionary trainers, default-allocator contexts, seekable format).
 * Faults and accounting apply only while armed, i.e. between entry to and return from the call under test;
 * the harness's own and the sanitizer runtime's allocations are never failed or counted. */
void* __real_malloc(size_t); void* __real_calloc(size_t, size_t); void* __real_realloc(void*, size_t); void __real_free(void*);
#define WSET (1u << 16)
static struct { int armed; long calls, failed, fail1, fail2, live; void* set[WSET]; } W;
static void wset_add(void* p) { size_t i = ((uintptr_t)p >> 4) * 2654435761u % WSET; unsigned n = 0; while (W.set[i] && W.set[i] != (void*)1 && n++ < WSET) i = (i + 1) % WSET; if (n < WSET) { W.set[i] = p; W.live++; } }
static int wset_del(void* p) { size_t i = ((uintptr_t)p >> 4) * 2654435761u % WSET; unsigned n = 0; while (W.set[i] && n++ < WSET) { if (W.set[i] == p) { W.set[i] = (void*)1; W.live--; return 1; } i = (i + 1) % WSET; } return 0; }
static int wfail(void) { W.calls++; if ((W.fail1 && W.calls == W.fail1) || (W.fail2 && W.calls == W.fail2)) { W.failed++; sim_fault_fired("libc_alloc_fail_kth"); return 1; } return 0; }
static int g_wrap_fill = -1;   /* >= 0: every block from malloc() is filled with this byte while armed, so that a read of uninitialised heap memory replays identically and differs between two runs that use different bytes */
void sim_wrap_fill(int byte) { g_wrap_fill = byte; }
void* __wrap_malloc(size_t n) { void* p; if (!W.armed) return __real_malloc(n); if (wfail()) return NULL; p = __real_malloc(n); if (p) { wset_add(p); if (g_wrap_fill >= 0) memset(p, g_wrap_fill, n); } return p; }
void* __wrap_calloc(size_t a, size_t b) { void* p; if (!W.armed) return __real_calloc(a, b); if (wfail()) return NULL; p = __real_calloc(a, b); if (p) wset_add(p); return p; }
void* __wrap_realloc(void* o, size_t n) { void* p; if (!W.armed) { if (o && W.live) wset_del(o); return __real_realloc(o, n); } if (wfail()) return NULL; if (o) wset_del(o); p = __real_realloc(o, n); if (p) wset_add(p); return p; }
void  __wrap_free(void* p) { if (p && W.live) wset_del(p); __real_free(p); }
void sim_wrap_arm(long fail1, long fail2) { if (W.live == 0) memset(W.set, 0, sizeof W.set); W.calls = W.failed = 0; W.fail1 = fail1; W.fail2 = fail2; W.armed = 1; }
void sim_wrap_disarm(void) { W.armed = 0; }
void sim_wrap_reset(void) { g_wrap_fill = -1; W.armed = 0; memset(W.set, 0, sizeof W.set); W.live = 0; W.calls = W.failed = 0; }
long sim_wrap_calls(void) { return W.calls; }
long sim_wrap_failed(void) { return W.failed; }
long sim_wrap_live(void) { return W.live; }
