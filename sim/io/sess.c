/* sess.c — session simulator (see sess.h) */
#include "sess.h"

const CParamDesc g_cparams[] = {
    { "compressionLevel", ZSTD_c_compressionLevel, -7, 22 },
    { "windowLog", ZSTD_c_windowLog, 10, 23 },
    { "hashLog", ZSTD_c_hashLog, 6, 20 },
    { "chainLog", ZSTD_c_chainLog, 6, 20 },
    { "searchLog", ZSTD_c_searchLog, 1, 6 },
    { "minMatch", ZSTD_c_minMatch, 3, 7 },
    { "targetLength", ZSTD_c_targetLength, 0, 256 },
    { "strategy", ZSTD_c_strategy, 1, 9 },
    { "targetCBlockSize", ZSTD_c_targetCBlockSize, 1340, 131072 },
    { "enableLongDistanceMatching", ZSTD_c_enableLongDistanceMatching, 0, 2 },
    { "ldmHashLog", ZSTD_c_ldmHashLog, 6, 20 },
    { "ldmMinMatch", ZSTD_c_ldmMinMatch, 4, 128 },
    { "ldmBucketSizeLog", ZSTD_c_ldmBucketSizeLog, 1, 8 },
    { "ldmHashRateLog", ZSTD_c_ldmHashRateLog, 0, 8 },
    { "contentSizeFlag", ZSTD_c_contentSizeFlag, 0, 1 },
    { "checksumFlag", ZSTD_c_checksumFlag, 0, 1 },
    { "dictIDFlag", ZSTD_c_dictIDFlag, 0, 1 },
    { "nbWorkers", ZSTD_c_nbWorkers, 0, 4 },
    { "jobSize", ZSTD_c_jobSize, 0, 2 << 20 },
    { "overlapLog", ZSTD_c_overlapLog, 0, 9 },
    { "rsyncable", ZSTD_c_rsyncable, 0, 1 },
    { "format", ZSTD_c_format, 0, 1 },
    { "forceMaxWindow", ZSTD_c_forceMaxWindow, 0, 1 },
    { "forceAttachDict", ZSTD_c_forceAttachDict, 0, 3 },
    { "literalCompressionMode", ZSTD_c_literalCompressionMode, 0, 2 },
    { "srcSizeHint", ZSTD_c_srcSizeHint, 0, 1 << 24 },
    { "enableDedicatedDictSearch", ZSTD_c_enableDedicatedDictSearch, 0, 1 },
    { "stableInBuffer", ZSTD_c_stableInBuffer, 0, 1 },
    { "stableOutBuffer", ZSTD_c_stableOutBuffer, 0, 1 },
    { "blockDelimiters", ZSTD_c_blockDelimiters, 0, 1 },
    { "validateSequences", ZSTD_c_validateSequences, 0, 1 },
    { "useBlockSplitter", ZSTD_c_useBlockSplitter, 0, 2 },
    { "useRowMatchFinder", ZSTD_c_useRowMatchFinder, 0, 2 },
    { "deterministicRefPrefix", ZSTD_c_deterministicRefPrefix, 0, 1 },
    { "prefetchCDictTables", ZSTD_c_prefetchCDictTables, 0, 2 },
    { "enableSeqProducerFallback", ZSTD_c_enableSeqProducerFallback, 0, 1 },
    { "maxBlockSize", ZSTD_c_maxBlockSize, 1024, 131072 },
    { "searchForExternalRepcodes", ZSTD_c_searchForExternalRepcodes, 0, 2 },
    { NULL, 0, 0, 0 }
};

ZSTD_customMem sess_cmem(void) { SimCMem m = sim_cmem(); ZSTD_customMem z; memcpy(&z, &m, sizeof z); return z; }

static void setc(Plan* p, const char* name, int64_t v) { char k[40]; snprintf(k, sizeof k, "c.%s", name); plan_set(p, k, v); }
int sess_get_cparam(const Plan* p, const char* name, int dflt) { char k[40]; snprintf(k, sizeof k, "c.%s", name); return (int)plan_get(p, k, dflt); }

void sess_gen_cparams(Plan* p, Rng* r, int flags) {
    size_t const n = (size_t)plan_get(p, "in_size", 0);
    int level, maxlvl = n > (1u << 20) ? 9 : n > (256u << 10) ? 15 : 22;
    int const smallwin = (flags & GP_SMALLWIN) != 0;
    switch (rng_below(r, 8)) { case 0: level = (int)rng_range(r, -7, -1); break; case 1: level = 0; break; case 2: case 3: level = (int)rng_range(r, 1, 4); break;
        case 4: level = (int)rng_range(r, 5, 12); break; default: level = (int)rng_range(r, 1, maxlvl); break; }
    setc(p, "compressionLevel", level);
    if (rng_coin(r, 1, 3) || smallwin) setc(p, "windowLog", rng_range(r, 10, smallwin ? 16 : (n > (1u << 20) ? 22 : 23)));
    if (rng_coin(r, 1, 5)) {
        int st = (int)rng_range(r, 1, n > (512u << 10) ? 6 : 9);
        setc(p, "strategy", st);
        if (rng_coin(r, 1, 2)) setc(p, "hashLog", rng_range(r, 6, 18));
        if (rng_coin(r, 1, 2)) setc(p, "chainLog", rng_range(r, 6, 18));
        if (rng_coin(r, 1, 2)) setc(p, "searchLog", rng_range(r, 1, n > (256u << 10) ? 4 : 6));
        if (rng_coin(r, 1, 2)) setc(p, "minMatch", rng_range(r, 3, 7));
        if (rng_coin(r, 1, 3)) setc(p, "targetLength", rng_range(r, 0, 200));
    } else {
        if (rng_coin(r, 1, 8)) setc(p, "minMatch", rng_range(r, 3, 7));
        if (rng_coin(r, 1, 8)) setc(p, "hashLog", rng_range(r, 6, 18));
    }
    if (rng_coin(r, 1, 8)) {
        setc(p, "enableLongDistanceMatching", 1);
        if (rng_coin(r, 1, 2)) setc(p, "ldmHashLog", rng_range(r, 6, 18));
        if (rng_coin(r, 1, 2)) setc(p, "ldmMinMatch", rng_range(r, 4, 128));
        if (rng_coin(r, 1, 3)) setc(p, "ldmBucketSizeLog", rng_range(r, 1, 8));
        if (rng_coin(r, 1, 3)) setc(p, "ldmHashRateLog", rng_range(r, 0, 8));
    } else if (rng_coin(r, 1, 10)) setc(p, "enableLongDistanceMatching", 2);
    if (rng_coin(r, 1, 2)) setc(p, "checksumFlag", 1);
    if (rng_coin(r, 1, 6)) setc(p, "contentSizeFlag", 0);
    if (rng_coin(r, 1, 8)) setc(p, "dictIDFlag", 0);
    if (rng_coin(r, 1, 6)) setc(p, "targetCBlockSize", rng_coin(r, 1, 2) ? 1340 + (int64_t)rng_below(r, 4000) : rng_range(r, 1340, 131072));
    if (rng_coin(r, 1, 6)) setc(p, "maxBlockSize", rng_coin(r, 1, 2) ? 1024 + (int64_t)rng_below(r, 8000) : rng_range(r, 1024, 131072));
    if (rng_coin(r, 1, 5)) setc(p, "literalCompressionMode", rng_range(r, 0, 2));
    if (rng_coin(r, 1, 4)) setc(p, "useBlockSplitter", rng_range(r, 0, 2));
    if (rng_coin(r, 1, 4)) setc(p, "useRowMatchFinder", rng_range(r, 0, 2));
    if (rng_coin(r, 1, 12)) setc(p, "forceMaxWindow", 1);
    if (rng_coin(r, 1, 12)) setc(p, "srcSizeHint", (int64_t)rng_size(r, 1 << 22));
    if (!(flags & GP_NOFORMAT) && rng_coin(r, 1, 12)) setc(p, "format", 1);
    if (!(flags & GP_NOMT) && ((flags & GP_FORCE_MT) || ((flags & GP_MT) && rng_coin(r, 1, 3)))) {
        setc(p, "nbWorkers", rng_range(r, 1, 4));
        if (rng_coin(r, 2, 3)) setc(p, "jobSize", rng_coin(r, 2, 3) ? (512 << 10) : rng_range(r, 512 << 10, 2 << 20));
        if (rng_coin(r, 1, 2)) setc(p, "overlapLog", rng_range(r, 0, 9));
        if (rng_coin(r, 1, 4)) setc(p, "rsyncable", 1);
    }
}
int sess_apply_cparams(ZSTD_CCtx* c, const Plan* p) {
    int i, j, n = 0;
    /* level first (it resets nothing but order must be fixed for determinism), then the rest in plan order */
    for (i = 0; i < p->nparams; i++) {
        const char* k = p->params[i].key;
        if (k[0] != 'c' || k[1] != '.') continue;
        for (j = 0; g_cparams[j].name; j++) if (!strcmp(g_cparams[j].name, k + 2)) {
            size_t const r = ZSTD_CCtx_setParameter(c, (ZSTD_cParameter)g_cparams[j].id, (int)p->params[i].v);
            if (!ZSTD_isError(r)) n++;
            break;
        }
    }
    return n;
}

void sess_init(Sess* s) { memset(s, 0, sizeof *s); }
void sess_free(Sess* s) { free(s->in); free(s->dict); free(s->wire); memset(s, 0, sizeof *s); }
void sess_gen_input_params(Plan* p, Rng* r, size_t max) {
    plan_set(p, "in_kind", (int64_t)rng_below(r, GEN_NKINDS));
    plan_set(p, "in_size", (int64_t)rng_size(r, max));
    plan_set(p, "in_seed", (int64_t)(rng_u64(r) >> 2));
}
void sess_make_input(Sess* s, const Plan* p) {
    Rng r; size_t n = (size_t)plan_get(p, "in_size", 0);
    if (n > ((size_t)64 << 20)) n = (size_t)64 << 20;
    rng_seed(&r, (uint64_t)plan_get(p, "in_seed", 1), "input");
    s->in = (uint8_t*)malloc(n ? n : 1); s->in_size = n;
    gen_input(&r, (int)plan_get(p, "in_kind", 0), s->in, n);
    /* optional alphabet reduction: turns random stretches into entropy-only noise (large Huffman literal sections, few matches) */
    { int const alpha = (int)plan_get(p, "in_alpha", 0); size_t i; if (alpha > 1) for (i = 0; i < n; i++) s->in[i] = (uint8_t)(32 + s->in[i] % alpha); }
    /* optional ending: a run of one byte (a multiple of 32 long inside the last block, reaching back into the block before) closed by 1-31 bytes of another value */
    { size_t const t = (size_t)plan_get(p, "in_runtail", 0), run = (size_t)plan_get(p, "in_runlen", 0) + 256;
      if (t && n > t + run) { memset(s->in + (n - t - run), 'x', run); memset(s->in + (n - t), 'Q', t); } }
}
void sess_make_dict(Sess* s, const Plan* p) {
    int kind = (int)plan_get(p, "dict_kind", 0); size_t n = (size_t)plan_get(p, "dict_size", 0); Rng r;
    if (kind == 0 || n < 8) return;
    if (n > (1u << 20)) n = 1u << 20;
    rng_seed(&r, (uint64_t)plan_get(p, "dict_seed", 7), "dict");
    s->dict = (uint8_t*)malloc(n); s->dict_size = n;
    /* content correlated with the input: slices of it plus generated filler */
    { size_t i = 0; gen_input(&r, (int)plan_get(p, "in_kind", 0), s->dict, n);
      while (s->in_size > 16 && i + 8 < n && rng_coin(&r, 3, 4)) { size_t l = 8 + rng_below(&r, 2000), from = rng_below(&r, s->in_size - 8); if (l > n - i) l = n - i; if (l > s->in_size - from) l = s->in_size - from; memcpy(s->dict + i, s->in + from, l); i += l + rng_below(&r, 500); } }
    if (kind == 2 && n >= 512) {
        /* structured dictionary: entropy tables from the input statistics, via ZDICT_finalizeDictionary */
        size_t const content = n / 2; uint8_t* out = (uint8_t*)malloc(n); size_t sizes[16]; unsigned ns = 0; size_t tot = 0; ZDICT_params_t zp; size_t res;
        memset(&zp, 0, sizeof zp); zp.dictID = (unsigned)plan_get(p, "dict_id", 0); zp.compressionLevel = 3;
        while (ns < 16 && tot + 64 <= s->in_size) { size_t l = s->in_size / 16; if (l < 64) l = 64; if (tot + l > s->in_size) l = s->in_size - tot; sizes[ns++] = l; tot += l; }
        if (ns >= 1) {
            res = ZDICT_finalizeDictionary(out, n, s->dict + (n - content), content, s->in, sizes, ns, zp);
            if (!ZDICT_isError(res)) { free(s->dict); s->dict = out; s->dict_size = res; sim_probe("sess.dict_structured"); return; }
        }
        free(out);
    }
    /* a raw-content dictionary must not start with the dictionary magic */
    if (s->dict_size >= 4 && s->dict[0] == 0x37 && s->dict[1] == 0xA4 && s->dict[2] == 0x30 && s->dict[3] == 0xEC) s->dict[0] = 0;
    sim_probe("sess.dict_raw");
}
void sess_wire_append(Sess* s, const void* b, size_t n) {
    if (s->wire_size + n > s->wire_cap) { s->wire_cap = (s->wire_size + n) * 2 + 4096; s->wire = (uint8_t*)realloc(s->wire, s->wire_cap); }
    if (n) memcpy(s->wire + s->wire_size, b, n);
    s->wire_size += n;
}

/* guarded-buffer cache: call histories repeat the same sizes thousands of times; reusing the exactly-sized guarded
 * buffer keeps the canaries/poison semantics (checked after every call) without an allocation per call */
typedef struct { void* p; size_t n; } BufSlot;
static BufSlot g_slots[8];
void* sess_buf_get(int slot, size_t n) {
    BufSlot* b = &g_slots[slot & 7];
    if (b->p && b->n == n) return b->p;
    if (b->p) sim_buf_free(b->p);
    b->p = sim_buf_new(n); b->n = n;
    return b->p;
}
void sess_buf_cache_drop(void) { int i; for (i = 0; i < 8; i++) { if (g_slots[i].p) sim_buf_free(g_slots[i].p); g_slots[i].p = NULL; g_slots[i].n = 0; } }

/* ---------------- compression histories ---------------- */
void sess_gen_chist(Plan* p, Rng* r, size_t in_size, int multi_frame) {
    int nops = (int)rng_range(r, 0, 14), i;
    int style = (int)rng_below(r, 6);   /* 0 tiny outputs, 1 tiny inputs, 2 mixed, 3 big, 4 flush-heavy, 5 block-edge */
    for (i = 0; i < nops; i++) {
        size_t in_len, out_cap; int dir, rep;
        switch (style) {
        case 0: in_len = rng_chunk(r, in_size, 0); out_cap = rng_below(r, 24); break;
        case 1: in_len = rng_below(r, 9); out_cap = rng_chunk(r, 1 << 20, ZSTD_CStreamOutSize()); break;
        case 3: in_len = in_size; out_cap = ZSTD_compressBound(in_size) + rng_below(r, 64); break;
        case 5: in_len = (128 << 10) - 2 + rng_below(r, 5); out_cap = (128 << 10) - 2 + rng_below(r, 600); break;
        default: in_len = rng_chunk(r, in_size, ZSTD_CStreamInSize()); out_cap = rng_chunk(r, 1 << 20, ZSTD_CStreamOutSize()); break;
        }
        { int x = (int)rng_below(r, 100); int fl = style == 4 ? 45 : 15; dir = x < fl ? 1 : (x < fl + (multi_frame ? 8 : 3)) ? 2 : 0; }
        rep = rng_coin(r, 1, 3) ? (int)rng_range(r, 1, 40) : 1;
        if (style <= 1 && rng_coin(r, 1, 2)) rep = (int)rng_range(r, 1, 400);
        plan_add(p, "cs", 4, (int64_t)in_len, (int64_t)out_cap, (int64_t)dir, (int64_t)rep);
    }
    plan_set(p, "fin_in", rng_coin(r, 1, 2) ? (int64_t)in_size : (int64_t)(1 + rng_chunk(r, 1 << 20, ZSTD_CStreamInSize())));
    plan_set(p, "fin_out", rng_coin(r, 1, 4) ? 1 + (int64_t)rng_below(r, 30) : (int64_t)(1 + rng_chunk(r, 1 << 20, ZSTD_CStreamOutSize())));
}

typedef struct { Sess* s; ZSTD_CCtx* c; int ending; size_t frozen_end; int frame_has_calls; } CH;

static size_t one_ccall(CH* h, size_t in_len, size_t out_cap, int dir) {
    Sess* s = h->s; uint8_t* src; uint8_t* dst; ZSTD_inBuffer in; ZSTD_outBuffer out; size_t ret; const char* e;
    if (h->ending) { dir = 2; in_len = h->frozen_end - s->in_pos; }
    if (in_len > s->in_size - s->in_pos) in_len = s->in_size - s->in_pos;
    /* slices up to 64 KiB are copied into an exactly-sized guarded buffer (over-read detection); larger ones are
     * presented in place, otherwise a tiny output capacity makes the copying quadratic */
    if (in_len <= 65536) { src = (uint8_t*)sess_buf_get(0, in_len); if (in_len) memcpy(src, s->in + s->in_pos, in_len); } else src = s->in + s->in_pos;
    dst = (uint8_t*)sess_buf_get(1, out_cap);
    in.src = src; in.size = in_len; in.pos = 0; out.dst = dst; out.size = out_cap; out.pos = 0;
    ret = ZSTD_compressStream2(h->c, &out, &in, (ZSTD_EndDirective)dir);
    s->ncalls++;
    if (in.pos > in.size || out.pos > out.size) sim_violation("cursor_overrun", "compressStream2 moved a cursor beyond its limit: in %zu/%zu out %zu/%zu", in.pos, in.size, out.pos, out.size);
    if ((e = sim_buf_check(dst)) != NULL) sim_violation("dst_overrun", "compressStream2(out_cap=%zu): %s", out_cap, e);
    if (in_len <= 65536 && (e = sim_buf_check(src)) != NULL) sim_violation("src_overrun", "compressStream2: %s", e);
    if (in.src != src || in.size != in_len || out.dst != dst || out.size != out_cap) sim_violation("buffer_desc_modified", "compressStream2 modified buffer descriptors");
    if (ZSTD_isError(ret)) return ret;
    sess_wire_append(s, dst, out.pos);
    if (in_len > 0 && out_cap > 0 && in.pos == 0 && out.pos == 0 && !(dir != 0 && ret == 0)) {
        s->noprogress_calls++;
        sim_violation("no_progress", "compressStream2(dir=%d) given %zu input bytes and %zu output bytes neither consumed nor produced (ret=%zu)", dir, in_len, out_cap, ret);
    }
    s->in_pos += in.pos;
    h->frame_has_calls = 1;
    sim_event("cs in=%zu/%zu out=%zu/%zu dir=%d ret=%zu", in.pos, in_len, out.pos, out_cap, dir, ret);
    if (dir == 1 && ret == 0) {
        if (s->nflushes < 512) { s->flushes[s->nflushes].in_pos = s->in_pos; s->flushes[s->nflushes].w_pos = s->wire_size; s->flushes[s->nflushes].frame = s->nframes; s->nflushes++; }
        sim_probe("sess.flush_completed");
        if (s->on_flush_complete) s->on_flush_complete(s, s->ud);
    }
    if (dir == 2) {
        if (ret == 0) {
            if (in.pos != in_len) sim_violation("end_incomplete", "end directive reported completion with %zu of %zu offered bytes consumed", in.pos, in_len);
            if (s->nframes < 256) { SessFrame* f = &s->frames[s->nframes++]; f->in_start = s->frame_in_start; f->in_end = s->in_pos; f->w_start = s->frame_w_start; f->w_end = s->wire_size; }
            s->frame_in_start = s->in_pos; s->frame_w_start = s->wire_size;
            h->ending = 0; h->frame_has_calls = 0;
            if (s->on_frame_complete) s->on_frame_complete(s, s->ud);
        } else if (!h->ending) { h->ending = 1; h->frozen_end = s->in_pos + (in_len - in.pos); }
    }
    return ret;
}

size_t sess_run_chist(Sess* s, const Plan* p, ZSTD_CCtx* cctx) {
    CH h; int i; size_t ret = 0; long cap;
    size_t fin_in = (size_t)plan_get(p, "fin_in", 1 << 17), fin_out = (size_t)plan_get(p, "fin_out", 1 << 17);
    memset(&h, 0, sizeof h); h.s = s; h.c = cctx;
    if (fin_in < 1) fin_in = 1; if (fin_out < 1) fin_out = 1;
    cap = (long)(s->in_size + ZSTD_compressBound(s->in_size)) + 100000;
    for (i = 0; i < p->nops; i++) {
        const PlanOp* o = &p->ops[i]; long rep, k;
        if (!strcmp(o->kind, "clevel")) { ZSTD_CCtx_setParameter(cctx, ZSTD_c_compressionLevel, (int)o->a[0]); sim_probe("sess.midframe_level_change"); continue; }
        if (strcmp(o->kind, "cs")) continue;
        rep = o->nargs > 3 ? (long)o->a[3] : 1; if (rep < 1) rep = 1; if (rep > 100000) rep = 100000;
        for (k = 0; k < rep; k++) {
            size_t in_len = o->a[0] < 0 ? 0 : (size_t)o->a[0], out_cap = o->a[1] < 0 ? 0 : (size_t)o->a[1]; int dir = (int)o->a[2];
            if (dir < 0 || dir > 2) dir = 0;
            if (out_cap > ((size_t)1 << 28)) out_cap = (size_t)1 << 28;
            ret = one_ccall(&h, in_len, out_cap, dir);
            if (ZSTD_isError(ret)) return ret;
            if (s->abort_after_calls > 0 && s->ncalls >= s->abort_after_calls) return SESS_ABORTED;
            if (s->ncalls > cap) sim_violation("livelock", "compression history exceeded %ld calls", cap);
            if (s->in_pos == s->in_size && !h.ending && k > 4 && dir != 2) break;   /* nothing left to feed with this op */
        }
    }
    /* finish: everything still unconsumed goes into (a) final frame(s) */
    for (;;) {
        size_t const rem = s->in_size - s->in_pos;
        if (rem == 0 && !h.ending && !h.frame_has_calls && s->nframes > 0) break;
        ret = one_ccall(&h, rem < fin_in ? rem : fin_in, fin_out, (rem <= fin_in || h.ending) ? 2 : 0);
        if (ZSTD_isError(ret)) return ret;
        if (s->abort_after_calls > 0 && s->ncalls >= s->abort_after_calls) return SESS_ABORTED;
        if (s->ncalls > cap) sim_violation("livelock", "compression did not finish within %ld calls", cap);
    }
    return 0;
}

/* ---------------- decompression histories ---------------- */
void sess_gen_dhist(Plan* p, Rng* r) {
    int nops = (int)rng_range(r, 0, 10), i; int style = (int)rng_below(r, 5);
    for (i = 0; i < nops; i++) {
        size_t in_len, out_cap; int rep;
        switch (style) {
        case 0: in_len = 1 + rng_below(r, 4); out_cap = rng_chunk(r, 1 << 20, ZSTD_DStreamOutSize()); break;
        case 1: in_len = rng_chunk(r, 1 << 20, ZSTD_DStreamInSize()); out_cap = rng_below(r, 6); break;
        case 2: in_len = 1; out_cap = 1; break;
        default: in_len = rng_chunk(r, 1 << 20, ZSTD_DStreamInSize()); out_cap = rng_chunk(r, 1 << 20, ZSTD_DStreamOutSize()); break;
        }
        rep = rng_coin(r, 1, 2) ? (int)rng_range(r, 1, 600) : 1;
        if (in_len < 1) in_len = 1; if (out_cap < 1) out_cap = 1;   /* property: calls given consumable input and writable output */
        plan_add(p, "ds", 3, (int64_t)in_len, (int64_t)out_cap, (int64_t)rep);
    }
    plan_set(p, "dfin_in", (int64_t)(1 + rng_chunk(r, 1 << 20, ZSTD_DStreamInSize())));
    plan_set(p, "dfin_out", rng_coin(r, 1, 5) ? 1 + (int64_t)rng_below(r, 9) : (int64_t)(1 + rng_chunk(r, 1 << 20, ZSTD_DStreamOutSize())));
}
void dec_result_free(DecResult* r) { free(r->out); memset(r, 0, sizeof *r); }

typedef struct { const uint8_t* wire; size_t wire_size; size_t pos; int magicless; int check; size_t* frame_ends; int nframe_ends, cframe_ends; long stall; size_t last_ret; } DH;

static void dh_frame_ends(DH* d) {
    size_t ip = 0;
    while (ip < d->wire_size) { FwFrame f; if (fw_parse(d->wire + ip, d->wire_size - ip, d->magicless, &f) != 0) break; ip += f.total_size;
        if (d->nframe_ends == d->cframe_ends) { d->cframe_ends = d->cframe_ends ? d->cframe_ends * 2 : 64; d->frame_ends = (size_t*)realloc(d->frame_ends, sizeof(size_t) * (size_t)d->cframe_ends); }
        d->frame_ends[d->nframe_ends++] = ip; fw_free(&f); }
}
static int one_dcall(DH* d, ZSTD_DCtx* dctx, DecResult* r, size_t in_len, size_t out_cap) {
    uint8_t* src; uint8_t* dst; ZSTD_inBuffer in; ZSTD_outBuffer out; size_t ret; const char* e; int i;
    if (in_len > d->wire_size - d->pos) in_len = d->wire_size - d->pos;
    if (in_len <= 65536) { src = (uint8_t*)sess_buf_get(2, in_len); if (in_len) memcpy(src, d->wire + d->pos, in_len); } else src = (uint8_t*)d->wire + d->pos;
    dst = (uint8_t*)sess_buf_get(3, out_cap);
    in.src = src; in.size = in_len; in.pos = 0; out.dst = dst; out.size = out_cap; out.pos = 0;
    ret = ZSTD_decompressStream(dctx, &out, &in);
    r->ncalls++;
    if (in.pos > in.size || out.pos > out.size) sim_violation("cursor_overrun", "decompressStream moved a cursor beyond its limit: in %zu/%zu out %zu/%zu", in.pos, in.size, out.pos, out.size);
    if ((e = sim_buf_check(dst)) != NULL) sim_violation("dst_overrun", "decompressStream(out_cap=%zu): %s", out_cap, e);
    if (in_len <= 65536 && (e = sim_buf_check(src)) != NULL) sim_violation("src_overrun", "decompressStream: %s", e);
    if (r->out_size + out.pos > r->out_cap) { r->out_cap = (r->out_size + out.pos) * 2 + 4096; r->out = (uint8_t*)realloc(r->out, r->out_cap); }
    if (out.pos) memcpy(r->out + r->out_size, dst, out.pos);
    r->out_size += out.pos; d->pos += in.pos; r->consumed = d->pos;
    if (ZSTD_isError(ret)) { r->err = ret; return -1; }
    sim_event("ds in=%zu/%zu out=%zu/%zu ret=%zu", in.pos, in_len, out.pos, out_cap, ret);
    if (ret == 0) {
        r->frames_completed++;
        if (d->check) { int ok = 0; for (i = 0; i < d->nframe_ends; i++) if (d->frame_ends[i] == d->pos) ok = 1;
            if (!ok) sim_violation("frame_end_signal", "decompressStream returned 0 after consuming %zu bytes, which is not a frame end", d->pos); }
    }
    if (in_len > 0 && out_cap > 0 && in.pos == 0 && out.pos == 0) { d->stall++; if (d->check) sim_violation("no_progress", "decompressStream given %zu input bytes and %zu output bytes neither consumed nor produced (ret=%zu)", in_len, out_cap, ret); }
    d->last_ret = ret;
    return 0;
}
void sess_run_dhist(const Plan* p, ZSTD_DCtx* dctx, const uint8_t* wire, size_t wire_size, int magicless, int check_frame_ends, DecResult* r) {
    DH d; int i; long cap = ((long)wire_size + (64L << 20)) * 2; size_t fin_in = (size_t)plan_get(p, "dfin_in", 1 << 17), fin_out = (size_t)plan_get(p, "dfin_out", 1 << 17); long idle = 0;
    memset(&d, 0, sizeof d); memset(r, 0, sizeof *r);
    d.wire = wire; d.wire_size = wire_size; d.magicless = magicless; d.check = check_frame_ends; d.last_ret = 1;
    if (check_frame_ends) dh_frame_ends(&d);
    if (fin_in < 1) fin_in = 1; if (fin_out < 1) fin_out = 1;
    for (i = 0; i < p->nops; i++) {
        const PlanOp* o = &p->ops[i]; long rep, k;
        if (strcmp(o->kind, "ds")) continue;
        rep = o->nargs > 2 ? (long)o->a[2] : 1; if (rep < 1) rep = 1; if (rep > 100000) rep = 100000;
        for (k = 0; k < rep; k++) {
            size_t in_len = o->a[0] < 1 ? 1 : (size_t)o->a[0], out_cap = o->a[1] < 1 ? 1 : (size_t)o->a[1];
            if (out_cap > ((size_t)1 << 28)) out_cap = (size_t)1 << 28;
            if (d.pos == wire_size && d.last_ret == 0) break;
            if (one_dcall(&d, dctx, r, in_len, out_cap) != 0) { free(d.frame_ends); return; }
            r->ncalls += 0;
            if (r->ncalls > cap) sim_violation("livelock", "decompression history exceeded %ld calls", cap);
        }
    }
    while (!(d.pos == wire_size && d.last_ret == 0)) {
        size_t before_out = r->out_size, before_in = d.pos;
        if (one_dcall(&d, dctx, r, fin_in, fin_out) != 0) { free(d.frame_ends); return; }
        if (r->out_size == before_out && d.pos == before_in) { if (++idle > 4) break; } else idle = 0;   /* truncated stream: decoder waits for more */
        if (r->ncalls > cap) sim_violation("livelock", "decompression did not finish within %ld calls", cap);
    }
    free(d.frame_ends);
}

/* ---------------- oracles ---------------- */
void sess_check_lib_roundtrip(const uint8_t* wire, size_t wire_size, const uint8_t* expect, size_t expect_size, const uint8_t* dict, size_t dict_size, int dict_raw, int magicless) {
    ZSTD_DCtx* d = ZSTD_createDCtx();   /* oracle context: default allocator, never subject to injected faults */ uint8_t* out = (uint8_t*)sim_buf_new(expect_size); size_t r; const char* e;
    if (!d) { sim_buf_free(out); return; }
    if (magicless) ZSTD_DCtx_setParameter(d, ZSTD_d_format, ZSTD_f_zstd1_magicless);
    ZSTD_DCtx_setParameter(d, ZSTD_d_windowLogMax, 31);
    if (dict && dict_size) { if (dict_raw) ZSTD_DCtx_refPrefix_advanced(d, dict, dict_size, ZSTD_dct_rawContent); else ZSTD_DCtx_loadDictionary(d, dict, dict_size); }
    r = ZSTD_decompressDCtx(d, out, expect_size, wire, wire_size);
    if ((e = sim_buf_check(out)) != NULL) sim_violation("dst_overrun", "decompressDCtx: %s", e);
    if (ZSTD_isError(r)) sim_violation("roundtrip_error", "library decoder rejects what the compressor emitted: %s (wire %zu bytes, expect %zu)", ZSTD_getErrorName(r), wire_size, expect_size);
    if (r != expect_size || (r && memcmp(out, expect, r))) sim_violation("roundtrip_mismatch", "library decode differs from consumed input (got %zu bytes, expect %zu)", r, expect_size);
    sim_buf_free(out); ZSTD_freeDCtx(d);
}

void sess_check_conformance(const uint8_t* wire, size_t wire_size, const uint8_t* expect, size_t expect_size, const uint8_t* dict, size_t dict_size, int dict_raw,
                            int magicless, uint32_t expect_dictid, int dictid_known, const Plan* p) {
    size_t ip = 0, op = 0; int nf = 0; uint8_t* out = (uint8_t*)malloc(expect_size + 1);
    int const max_block_param = p ? sess_get_cparam(p, "maxBlockSize", 0) : 0;
    refdec_force_raw_dict = dict_raw;
    while (ip < wire_size) {
        FwFrame f; RefInfo info; int r = fw_parse(wire + ip, wire_size - ip, magicless, &f); int b; size_t bmax;
        if (r != 0) sim_violation("conf_framing", "emitted bytes at %zu are not a %s frame (frame %d)", ip, r == -1 ? "complete" : "valid", nf);
        if (f.kind == 1) { ip += f.total_size; fw_free(&f); nf++; continue; }
        if (f.unused_bit) sim_probe("conf.unused_bit_set");
        if (refdec_frame(out + op, expect_size - op, wire + ip, f.total_size, dict, dict_size, magicless, &info) != 0)
            sim_violation("conf_refdec_reject", "independent decoder rejects frame %d (offset %zu, size %zu, window %llu): %s", nf, ip, f.total_size, (unsigned long long)f.window_size, info.err);
        if (info.consumed != f.total_size) sim_violation("conf_framing", "frame %d: independent decoder consumed %zu bytes, frame walk says %zu", nf, info.consumed, f.total_size);
        if (memcmp(out + op, expect + op, info.produced)) sim_violation("conf_content", "frame %d: independent decoder regenerates different bytes than the input consumed", nf);
        if (f.has_fcs && f.fcs != info.produced) sim_violation("conf_fcs", "frame %d: Frame_Content_Size %llu but content is %zu bytes", nf, (unsigned long long)f.fcs, info.produced);
        if (f.checksum_flag) { uint32_t c = (uint32_t)ref_xxh64(out + op, info.produced, 0); if (c != f.stored_checksum) sim_violation("conf_checksum", "frame %d: stored checksum %08x, XXH64 of content gives %08x", nf, f.stored_checksum, c); }
        if (dictid_known == 1 && f.dict_id != expect_dictid) sim_violation("conf_dictid", "frame %d: header dictID %u, expected %u", nf, f.dict_id, expect_dictid);
        /* dictid_known == 2: the session may hold frames made without the dictionary (legacy init functions drop it); a frame that the
         * independent decoder cannot regenerate WITHOUT the dictionary has used it, and its header must then name it */
        if (dictid_known == 2 && dict && dict_size && f.dict_id != expect_dictid) {
            RefInfo i2; uint8_t* o2 = (uint8_t*)malloc(info.produced + 1); int const standalone = refdec_frame(o2, info.produced, wire + ip, f.total_size, NULL, 0, magicless, &i2) == 0 && i2.produced == info.produced && !memcmp(o2, out + op, info.produced);
            refdec_info_free(&i2); free(o2);
            if (!standalone) sim_violation("conf_dictid", "frame %d needs the dictionary (ID %u) to be decoded, but its header says Dictionary_ID %u", nf, expect_dictid, f.dict_id);
            else sim_probe("conf.frame_without_dictionary_in_dict_session");
        }
        bmax = f.window_size < (128u << 10) ? (size_t)f.window_size : (128u << 10);
        if (bmax < 1) bmax = 1;   /* empty single-segment frame */
        for (b = 0; b < info.nblocks; b++) {
            RefBlock* rb = &info.blocks[b];
            if (rb->regen > bmax && !(f.window_size == 0)) sim_violation("conf_block_size", "frame %d block %d regenerates %zu bytes > Block_Maximum_Size %zu (window %llu)", nf, b, rb->regen, bmax, (unsigned long long)f.window_size);
            if (max_block_param >= 1024 && rb->regen > (size_t)max_block_param) sim_violation("conf_block_size", "frame %d block %d regenerates %zu bytes > maxBlockSize %d", nf, b, rb->regen, max_block_param);
            if (rb->type == 2 && rb->bsize >= rb->regen) sim_violation("conf_interop_cblock", "frame %d block %d: compressed block of %zu bytes for %zu bytes of content", nf, b, rb->bsize, rb->regen);
            if (rb->type == 2) { sim_probe("conf.cblocks"); if (rb->lit_type >= 0 && rb->lit_type < 4) { static const char* const n[4] = { "conf.lit_raw", "conf.lit_rle", "conf.lit_huf", "conf.lit_treeless" }; sim_probe(n[rb->lit_type]); } }
            else sim_probe(rb->type == 0 ? "conf.rawblocks" : "conf.rleblocks");
        }
        if (info.nblocks > 1 && info.blocks[0].type == 1) sim_violation("conf_interop_rle_first", "frame %d: first block is RLE and is followed by %d more block(s)", nf, info.nblocks - 1);
        if (f.window_size > 0 && info.produced > f.window_size) sim_probe("conf.window_exceeded_by_content");
        op += info.produced; ip += f.total_size; nf++;
        refdec_info_free(&info); fw_free(&f);
    }
    if (op != expect_size) sim_violation("conf_content", "frames regenerate %zu bytes in total, input consumed was %zu", op, expect_size);
    sim_probe_n("conf.frames", nf);
    refdec_force_raw_dict = 0;
    free(out);
}
