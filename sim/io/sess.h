/* sess.h — session simulator: parameter vectors, inputs, dictionaries, the simulated wire, and drivers that run
 * a compression / decompression call history (plan ops) against the real library while a byte-vector model
 * follows along.  Every buffer handed to the library is exactly sized and guarded. */
#ifndef SESS_H
#define SESS_H
#define ZSTD_STATIC_LINKING_ONLY
#define ZDICT_STATIC_LINKING_ONLY
#include "zstd.h"
#include "zstd_errors.h"
#include "zdict.h"
#include "../core/sim.h"
#include "refdec.h"

typedef struct { const char* name; int id; int lo, hi; } CParamDesc;   /* generator ranges (subset of bounds) */
extern const CParamDesc g_cparams[];

/* draw a random parameter vector into the plan as "c.<name>" params.  flags select families. */
#define GP_MT        1   /* may set nbWorkers>=1 (+jobSize, overlapLog, rsyncable) */
#define GP_NOMT      2   /* never set MT params */
#define GP_SMALLWIN  4   /* bias to small windows (window expiry reached often) */
#define GP_FORCE_MT  8   /* nbWorkers >= 1 always */
#define GP_NOFORMAT 16   /* never magicless */
void sess_gen_cparams(Plan* p, Rng* r, int flags);
/* apply every "c.*" param of the plan; rejected values are skipped (shrinker may produce them). returns #applied */
int  sess_apply_cparams(ZSTD_CCtx* c, const Plan* p);
int  sess_get_cparam(const Plan* p, const char* name, int dflt);

typedef struct { size_t in_start, in_end, w_start, w_end; } SessFrame;
typedef struct { size_t in_pos, w_pos; int frame; } SessFlush;
typedef struct Sess {
    uint8_t* in; size_t in_size;
    uint8_t* dict; size_t dict_size; int dict_raw;   /* dict_raw: used as raw content (prefix) even if it carries the dictionary magic */
    uint8_t* wire; size_t wire_size, wire_cap;
    SessFrame frames[256]; int nframes;
    SessFlush flushes[512]; int nflushes;
    size_t in_pos;            /* bytes consumed by the compressor so far */
    size_t frame_in_start, frame_w_start;
    long ncalls, noprogress_calls;
    int magicless;
    long abort_after_calls;   /* >0: sess_run_chist returns SESS_ABORTED after this many calls (producer abandons the frame) */
    /* callbacks (may be NULL) */
    void (*on_flush_complete)(struct Sess* s, void* ud);   /* flush directive returned 0 */
    void (*on_frame_complete)(struct Sess* s, void* ud);   /* end directive returned 0 */
    void* ud;
    const char* prop_oracle_prefix;
} Sess;

#define SESS_ABORTED ((size_t)-4000)
void sess_init(Sess* s);
void sess_free(Sess* s);
void sess_make_input(Sess* s, const Plan* p);          /* in_kind, in_size, in_seed */
void sess_gen_input_params(Plan* p, Rng* r, size_t max);
void sess_make_dict(Sess* s, const Plan* p);           /* dict_kind (0 none,1 raw,2 structured), dict_size, dict_seed */
void sess_wire_append(Sess* s, const void* b, size_t n);

/* generate compression-history ops "cs in_len out_cap directive repeat" and fallback params */
void sess_gen_chist(Plan* p, Rng* r, size_t in_size, int multi_frame);
/* run the "cs" ops of the plan through ZSTD_compressStream2 on cctx, then finish the stream.
 * Violations of call-level invariants (over-capacity, cursor regress, no progress) are reported with sim_violation.
 * returns 0 ok, or a zstd error code (caller decides whether an error is legal). */
size_t sess_run_chist(Sess* s, const Plan* p, ZSTD_CCtx* cctx);

/* decoder histories: ops "ds in_len out_cap repeat" */
void sess_gen_dhist(Plan* p, Rng* r);
typedef struct { uint8_t* out; size_t out_size, out_cap; long ncalls; int frames_completed; size_t consumed; size_t err; } DecResult;
/* stream-decode `wire` through dctx following the plan's "ds" ops; checks cursor invariants and
 * "returns 0 exactly at frame ends" against framewalk when `check_frame_ends` is set. */
void sess_run_dhist(const Plan* p, ZSTD_DCtx* dctx, const uint8_t* wire, size_t wire_size, int magicless, int check_frame_ends, DecResult* r);
void dec_result_free(DecResult* r);

/* oracle helpers */
/* every frame on the wire accepted by the independent decoder and regenerating `expect`; header truthful. */
void sess_check_conformance(const uint8_t* wire, size_t wire_size, const uint8_t* expect, size_t expect_size,
                            const uint8_t* dict, size_t dict_size, int dict_raw, int magicless, uint32_t expect_dictid, int dictid_known, const Plan* p);
/* library one-shot decode equals expect */
void sess_check_lib_roundtrip(const uint8_t* wire, size_t wire_size, const uint8_t* expect, size_t expect_size,
                              const uint8_t* dict, size_t dict_size, int dict_raw, int magicless);
ZSTD_customMem sess_cmem(void);
void sess_buf_cache_drop(void);
void* sess_buf_get(int slot, size_t n);   /* cached exactly-sized guarded buffer (slots 0-7); never free it */
#endif
