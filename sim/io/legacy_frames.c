/* legacy_frames.c — valid legacy (v0.1 … v0.8) frames for the simulator's decoder scenarios, lifted at build time from
 * the repository's own tests/legacy.c (COMPRESSED / EXPECTED).  Only the data is used; its main() is renamed away. */
#define main legacy_c_unused_main
#include "legacy.c"
