/* simsched.c — deterministic thread scheduler behind zstd's pthread seam.
 *
 * Real pthreads, exactly one of which holds the baton.  Every synchronisation operation of the code under
 * test lands here (see sim_redirect.h); the seeded PRNG (or an explicit decision list when replaying a
 * minimised schedule) decides which enabled thread runs next, which waiter a cond_signal wakes, whether a
 * cond_wait wakes spuriously, and whether thread/mutex creation fails.
 *
 * This translation unit is NEVER compiled with -fsanitize=thread: parking/unparking uses raw futexes, so
 * ThreadSanitizer sees only the happens-before edges the program itself establishes (reported to it through
 * __tsan_acquire/__tsan_release on the simulated mutexes, and real pthread_create/join), and therefore still
 * reports data races although the execution is serialised. */
#define _GNU_SOURCE
#define SIM_NO_REDIRECT
#include "sim_redirect.h"
#include "../core/sim.h"
#include <errno.h>
#include <unistd.h>
#include <sys/syscall.h>
#include <linux/futex.h>
#include <stdatomic.h>

extern void __tsan_acquire(void* addr) __attribute__((weak));
extern void __tsan_release(void* addr) __attribute__((weak));

#define MAXT 64
#define M_MAGIC 0x53494d4dU /* SIMM */
#define C_MAGIC 0x53494d43U /* SIMC */
#define DEAD_MAGIC 0xDEADDEADU

typedef struct { uint32_t magic; int32_t owner; uint32_t ord; uint32_t pad; } SMutex;
typedef struct { uint32_t magic; uint32_t ord; } SCond;

typedef struct {
    int state; _Atomic int futex; void* wait_obj; pthread_t real; int has_real;
    void* (*fn)(void*); void* arg; void* ret; long prio; int yielded; int joined; int wake_spurious; long age; long stall_left;
} SThread;

static struct {
    SThread t[MAXT]; int nt;
    SchedCfg cfg; Rng rng, rng_sp;
    long steps, switches, choices, spurious_fired, create_failed, init_failed, ncreate, ninit, stalls_fired;
    uint64_t sig; uint32_t next_ord; long low_prio;
    long cp[8];
    uint8_t* trace; int ntrace, ctrace; int dpos;
    int active; int last_pick; long run_len; long fair_forced;
} G;
static __thread int t_tid = -1;
int (*sim_on_deadlock)(char*, size_t) = NULL;

enum { OP_LOCK=1, OP_UNLOCK, OP_WAIT, OP_SIGNAL, OP_BCAST, OP_CREATE, OP_JOIN, OP_EXIT, OP_YIELD };

static void fwait(_Atomic int* w) { while (atomic_load(w) == 0) syscall(SYS_futex, w, FUTEX_WAIT_PRIVATE, 0, NULL, NULL, 0); atomic_store(w, 0); }
static void fwake(_Atomic int* w) { atomic_store(w, 1); syscall(SYS_futex, w, FUTEX_WAKE_PRIVATE, 1, NULL, NULL, 0); }

void* __real_realloc(void*, size_t);   /* scheduler bookkeeping must bypass the libc fault/accounting seam */
static void record(int c) {
    if (G.ntrace == G.ctrace) { G.ctrace = G.ctrace ? G.ctrace * 2 : 4096; G.trace = (uint8_t*)__real_realloc(G.trace, G.ctrace); }
    G.trace[G.ntrace++] = (uint8_t)c;
}
static int explicit_choice(int n) { int c = (G.dpos < G.cfg.ndecisions) ? G.cfg.decisions[G.dpos] % n : 0; G.dpos++; return c; }
static int choose_plain(int n) {
    int c;
    if (n <= 1) return 0;
    c = G.cfg.decisions ? explicit_choice(n) : (int)rng_below(&G.rng, (uint64_t)n);
    record(c); G.choices++;
    return c;
}

static void describe(char* buf, size_t n) {
    static const char* const names[] = { "free", "runnable", "blocked_mutex", "blocked_cond", "blocked_join", "done" };
    size_t k = 0; int i;
    for (i = 0; i < G.nt && k + 64 < n; i++) {
        uint32_t ord = 0;
        if (G.t[i].state == ST_BLOCKED_MUTEX && G.t[i].wait_obj) ord = ((SMutex*)G.t[i].wait_obj)->ord;
        if (G.t[i].state == ST_BLOCKED_COND && G.t[i].wait_obj) ord = ((SCond*)G.t[i].wait_obj)->ord;
        k += (size_t)snprintf(buf + k, n - k, "t%d:%s(%u) ", i, names[G.t[i].state], ord);
    }
}

static void deadlock(void) {
    char buf[768]; char why[256]; why[0] = 0;
    describe(buf, sizeof buf);
    if (sim_on_deadlock && sim_on_deadlock(why, sizeof why) == 1) {
        /* inherent client deadlock (no capacity can ever appear): not a property violation; worker restarts */
        sim_event("benign-deadlock %s", why);
        sim_probe("sched.benign_client_deadlock");
        printf("END %ld status=OK hash=%016llx sig=0 nt=0 kf=- benign_deadlock=%s\n", g_sim_run_index, (unsigned long long)sim_event_hash(), why);
        fflush(stdout); sim_dump_probes(stdout);
        _exit(64);
    }
    sim_violation("deadlock", "no enabled thread at step %ld: %s %s", G.steps, buf, why);
}

/* choose the next thread to run; self_ok says whether the caller itself may continue */
static int pick_next(int self) {
    int cand[MAXT]; int n = 0, i, idx;
    /* spurious wake-up fault: a cond waiter becomes runnable without a signal */
    if (G.cfg.spurious_per_1024 > 0) {
        int w[MAXT], nw = 0;
        for (i = 0; i < G.nt; i++) if (G.t[i].state == ST_BLOCKED_COND) w[nw++] = i;
        if (nw && (int)rng_below(&G.rng_sp, 1024) < G.cfg.spurious_per_1024) {
            int v = w[rng_below(&G.rng_sp, (uint64_t)nw)];
            G.t[v].state = ST_RUNNABLE; G.t[v].wake_spurious = 1; G.spurious_fired++; sim_fault_fired("spurious_wakeup");
        }
    }
    /* stalled thread fault ("slow node"): a runnable thread that was descheduled is not a candidate while others are, for a bounded number of decisions */
    if (self >= 0 && G.t[self].state == ST_RUNNABLE && !G.t[self].yielded && G.t[self].stall_left <= 0) cand[n++] = self;
    for (i = 0; i < G.nt; i++) if (i != self && G.t[i].state == ST_RUNNABLE && G.t[i].stall_left <= 0) cand[n++] = i;
    for (i = 0; i < G.nt; i++) if (G.t[i].stall_left > 0) { if (n == 0 || G.t[i].state == ST_DONE) G.t[i].stall_left = 0; else G.t[i].stall_left--; }
    if (n == 0) { if (self >= 0 && G.t[self].state == ST_RUNNABLE && !G.t[self].yielded) cand[n++] = self; for (i = 0; i < G.nt; i++) if (i != self && G.t[i].state == ST_RUNNABLE) cand[n++] = i; }
    if (n == 0 && self >= 0 && G.t[self].state == ST_RUNNABLE) cand[n++] = self;  /* yielded but alone */
    if (self >= 0) G.t[self].yielded = 0;
    if (n == 0) return -1;
    if (n == 1) { G.t[cand[0]].age = 0; return cand[0]; }
    /* fairness: zstd's caller busy-waits (lock/unlock, tryAdd) for a worker to make progress; an unfair strategy
     * (PCT, starve, or spurious wake-ups of a third thread) could starve that worker forever.  A thread that has been
     * enabled but not chosen for fair_bound consecutive decisions is chosen.  Deterministic: a function of the
     * decision history only, and identical in replay mode. */
    { int oldest = -1; for (i = 0; i < n; i++) if (G.t[cand[i]].age > G.cfg.fair_bound && (oldest < 0 || G.t[cand[i]].age > G.t[cand[oldest]].age)) oldest = i;
      if (oldest >= 0) { int c; G.fair_forced++; for (i = 0; i < n; i++) G.t[cand[i]].age++; c = cand[oldest]; G.t[c].age = 0; if (G.cfg.strategy == SCHED_PCT && self >= 0 && c != self) G.t[self].prio = --G.low_prio; return c; } }
    if (G.cfg.decisions) idx = explicit_choice(n);
    else switch (G.cfg.strategy) {
    case SCHED_PCT: { long best = -(1L << 60); idx = 0; for (i = 0; i < n; i++) if (G.t[cand[i]].prio > best) { best = G.t[cand[i]].prio; idx = i; } break; }
    case SCHED_STICKY: if (cand[0] == self && (int)rng_below(&G.rng, 100) < G.cfg.sticky_pct) idx = 0; else idx = (int)rng_below(&G.rng, (uint64_t)n); break;
    case SCHED_STARVE: { int alt[MAXT], na = 0; for (i = 0; i < n; i++) if (cand[i] != G.cfg.starve_tid) alt[na++] = i; idx = na ? alt[rng_below(&G.rng, (uint64_t)na)] : 0; break; }
    default: idx = (int)rng_below(&G.rng, (uint64_t)n); break;
    }
    record(idx); G.choices++;
    for (i = 0; i < n; i++) G.t[cand[i]].age++;
    G.t[cand[idx]].age = 0;
    return cand[idx];
}

static void switch_to(int self, int next) {
    if (next == self) return;
    G.switches++;
    fwake(&G.t[next].futex);
    if (self >= 0 && G.t[self].state != ST_DONE) fwait(&G.t[self].futex);
}

static void sched_point(int op, uint32_t ord) {
    int self = t_tid, next, j;
    G.steps++;
    G.sig = sim_mix64(G.sig ^ ((uint64_t)(unsigned)self << 40) ^ ((uint64_t)op << 32) ^ ord);
    if (G.steps > G.cfg.step_cap) sim_violation("livelock", "step budget %ld exceeded", G.cfg.step_cap);
    if (G.cfg.strategy == SCHED_PCT && !G.cfg.decisions)
        for (j = 0; j < G.cfg.pct_d && j < 8; j++) if (G.cp[j] == G.steps) G.t[self].prio = G.cfg.pct_d - j;
    next = pick_next(self);
    if (next < 0) deadlock();
    switch_to(self, next);
}
/* block the calling thread (its state was already set to a BLOCKED_* value) until made runnable and chosen */
static void block_self(int op, uint32_t ord) {
    int self = t_tid, next;
    G.steps++;
    G.sig = sim_mix64(G.sig ^ ((uint64_t)(unsigned)self << 40) ^ ((uint64_t)op << 32) ^ ord ^ 0x8000000000ULL);
    if (G.steps > G.cfg.step_cap) sim_violation("livelock", "step budget %ld exceeded", G.cfg.step_cap);
    next = pick_next(self);
    if (next < 0) deadlock();
    if (next == self) return;       /* only possible after a spurious wake-up of self */
    G.switches++;
    fwake(&G.t[next].futex);
    fwait(&G.t[self].futex);
}

static void ensure_main(void) {
    if (t_tid < 0) {
        t_tid = 0;
        if (!G.active) {   /* linked into a program that never calls sim_sched_reset (the zstd CLI): seed from the environment */
            SchedCfg c; const char* e = getenv("VERIF_SCHED_SEED"); memset(&c, 0, sizeof c);
            c.seed = e ? strtoull(e, NULL, 10) : 1; c.strategy = SCHED_STICKY; c.sticky_pct = 70; c.step_cap = 2000000000L; c.fair_bound = 200; c.horizon = 300;
            sim_sched_reset(&c);
        }
        if (G.nt == 0) { G.nt = 1; G.t[0].state = ST_RUNNABLE; }
    }
}

/* ---------------- configuration ---------------- */
void sim_sched_cfg_from_plan(SchedCfg* c, const Plan* p) {
    memset(c, 0, sizeof *c);
    c->seed = (uint64_t)plan_get(p, "sched_seed", (int64_t)(p->seed & 0x7fffffffffffffffULL));
    c->strategy = (int)plan_get(p, "sched_strategy", SCHED_RW);
    c->pct_d = (int)plan_get(p, "sched_pct_d", 2);
    c->horizon = (int)plan_get(p, "sched_horizon", 300);
    c->sticky_pct = (int)plan_get(p, "sched_sticky", 90);
    c->starve_tid = (int)plan_get(p, "sched_starve", 1);
    c->spurious_per_1024 = (int)plan_get(p, "sched_spurious", 0);
    c->fail_create_at = (int)plan_get(p, "sched_fail_create", 0);
    c->fail_init_at = (int)plan_get(p, "sched_fail_init", 0);
    c->step_cap = (long)plan_get(p, "sched_step_cap", 2000000);
    c->fair_bound = (long)plan_get(p, "sched_fair", 500);
    c->decisions = p->decisions; c->ndecisions = p->ndecisions;
}
void sim_sched_plan_defaults(Plan* p, Rng* r, int faults) {
    int s = (int)rng_below(r, 10);
    plan_set(p, "sched_seed", (int64_t)(rng_u64(r) >> 1));
    if (s < 3) plan_set(p, "sched_strategy", SCHED_RW);
    else if (s < 7) { plan_set(p, "sched_strategy", SCHED_PCT); plan_set(p, "sched_pct_d", rng_range(r, 1, 4)); plan_set(p, "sched_horizon", rng_range(r, 20, 600)); }
    else if (s < 9) { plan_set(p, "sched_strategy", SCHED_STICKY); plan_set(p, "sched_sticky", rng_range(r, 50, 98)); }
    else { plan_set(p, "sched_strategy", SCHED_STARVE); plan_set(p, "sched_starve", rng_range(r, 0, 3)); }
    if (faults) {
        if (rng_coin(r, 1, 2)) plan_set(p, "sched_spurious", rng_range(r, 8, 200));
        if (rng_coin(r, 1, 4)) plan_set(p, "sched_fail_create", rng_range(r, 1, 6));
        /* mutex/cond init failure is available (sched_fail_init) but not drawn: no property quantifies over it, and
         * POOL_create_advanced releases its context with a not-yet-recorded customMem on that path (see DESIGN, observations) */
        (void)rng_coin(r, 1, 5);
    }
}
void sim_sched_reset(const SchedCfg* c) {
    int i;
    for (i = 1; i < G.nt; i++) if (G.t[i].state != ST_DONE && G.t[i].state != ST_FREE) { fprintf(stderr, "simsched: reset with live thread %d\n", i); _exit(70); }
    t_tid = 0;
    memset(G.t, 0, sizeof G.t);
    G.nt = 1; G.t[0].state = ST_RUNNABLE; G.t[0].prio = 500000;
    G.cfg = *c;
    if (G.cfg.step_cap <= 0) G.cfg.step_cap = 2000000;
    if (G.cfg.fair_bound <= 0) G.cfg.fair_bound = 500;
    G.last_pick = 0; G.run_len = 0; G.fair_forced = 0;
    rng_seed(&G.rng, c->seed, "sched"); rng_seed(&G.rng_sp, c->seed, "spurious");
    G.steps = G.switches = G.choices = G.spurious_fired = G.create_failed = G.init_failed = G.ncreate = G.ninit = G.stalls_fired = 0;
    G.sig = 0x1234; G.next_ord = 1; G.low_prio = 0; G.ntrace = 0; G.dpos = 0;
    { Rng r; rng_seed(&r, c->seed, "pct"); for (i = 0; i < 8; i++) G.cp[i] = 1 + (long)rng_below(&r, (uint64_t)(c->horizon > 0 ? c->horizon : 300)); G.t[0].prio = 1000 + (long)rng_below(&r, 1000000); }
    G.active = 1;
}
void sim_sched_finish(SchedStats* out) {
    int i;
    for (i = 1; i < G.nt; i++) {
        if (G.t[i].state != ST_DONE) sim_violation("thread_leak", "thread %d still alive at end of scenario", i);
        if (!G.t[i].joined) sim_violation("thread_not_joined", "thread %d finished but was never joined", i);
    }
    if (out) { out->steps = G.steps; out->switches = G.switches; out->choices = G.choices; out->threads_created = G.nt - 1;
        out->fair_forced = G.fair_forced; out->spurious_fired = G.spurious_fired; out->create_failed = G.create_failed; out->init_failed = G.init_failed; out->signature = G.sig; }
}
int sim_self(void) { ensure_main(); return t_tid; }
int sim_sched_live_threads(void) { int i, n = 0; for (i = 1; i < G.nt; i++) if (G.t[i].state != ST_DONE) n++; return n; }
const uint8_t* sim_sched_trace(int* n) { *n = G.ntrace; return G.trace; }
int sim_thread_state(int tid, void** w) { if (tid < 0 || tid >= G.nt) return ST_FREE; if (w) *w = G.t[tid].wait_obj; return G.t[tid].state; }
int sim_thread_count(void) { return G.nt; }
void sim_yield(void) {
    ensure_main();
    G.t[t_tid].yielded = 1;
    if (G.cfg.strategy == SCHED_PCT) G.t[t_tid].prio = --G.low_prio;
    sched_point(OP_YIELD, 0);
}

void sim_sched_stall_self(long decisions) {
    ensure_main();
    if (decisions <= 0) return;
    G.t[t_tid].stall_left = decisions; G.stalls_fired++; sim_fault_fired("thread_stall");
    sched_point(OP_YIELD, 1);
}

/* ---------------- mutex ---------------- */
static int init_fault(void) {
    G.ninit++;
    if (G.cfg.fail_init_at && G.ninit == G.cfg.fail_init_at) { G.init_failed++; sim_fault_fired("sync_init_enomem"); return 1; }
    return 0;
}
int sim_mutex_init(pthread_mutex_t* pm, const pthread_mutexattr_t* a) {
    SMutex* m = (SMutex*)pm; (void)a; ensure_main();
    /* an injected init failure still leaves a usable object behind (as glibc does with zeroed storage):
     * zstd's clean-up paths lock/destroy objects whose init reported failure */
    { int const failed = init_fault();
      memset(pm, 0, sizeof *pm);
      m->magic = M_MAGIC; m->owner = -1; m->ord = G.next_ord++;
      return failed ? ENOMEM : 0; }
}
int sim_mutex_destroy(pthread_mutex_t* pm) {
    SMutex* m = (SMutex*)pm; int i; ensure_main();
    if (m->magic != M_MAGIC) return EINVAL;   /* destroy of a never-initialised mutex: zstd does this on init-failure paths; pthread semantics: undefined, tolerated */
    if (m->owner != -1) sim_violation("sched_misuse", "destroy of locked mutex #%u (owner t%d)", m->ord, m->owner);
    for (i = 0; i < G.nt; i++) if (G.t[i].state == ST_BLOCKED_MUTEX && G.t[i].wait_obj == m) sim_violation("sched_misuse", "destroy of mutex #%u with waiter t%d", m->ord, i);
    m->magic = DEAD_MAGIC;
    return 0;
}
int sim_mutex_lock(pthread_mutex_t* pm) {
    SMutex* m = (SMutex*)pm; ensure_main();
    if (m->magic != M_MAGIC) sim_violation("sched_misuse", "lock of %s mutex", m->magic == DEAD_MAGIC ? "destroyed" : "uninitialised");
    sched_point(OP_LOCK, m->ord);
    if (m->owner == t_tid) sim_violation("sched_misuse", "recursive lock of mutex #%u by t%d", m->ord, t_tid);
    while (m->owner != -1) {
        G.t[t_tid].state = ST_BLOCKED_MUTEX; G.t[t_tid].wait_obj = m;
        block_self(OP_LOCK, m->ord);
        if (m->magic != M_MAGIC) sim_violation("sched_misuse", "mutex destroyed while t%d waited on it", t_tid);
    }
    m->owner = t_tid;
    if (__tsan_acquire) __tsan_acquire(pm);
    return 0;
}
static void release_mutex(SMutex* m) {
    int i;
    m->owner = -1;
    for (i = 0; i < G.nt; i++) if (G.t[i].state == ST_BLOCKED_MUTEX && G.t[i].wait_obj == m) { G.t[i].state = ST_RUNNABLE; G.t[i].wait_obj = NULL; }
}
int sim_mutex_unlock(pthread_mutex_t* pm) {
    SMutex* m = (SMutex*)pm; ensure_main();
    if (m->magic != M_MAGIC) sim_violation("sched_misuse", "unlock of %s mutex", m->magic == DEAD_MAGIC ? "destroyed" : "uninitialised");
    if (m->owner != t_tid) sim_violation("sched_misuse", "unlock of mutex #%u by t%d, owner t%d", m->ord, t_tid, m->owner);
    if (__tsan_release) __tsan_release(pm);
    release_mutex(m);
    sched_point(OP_UNLOCK, m->ord);
    return 0;
}

/* ---------------- condition variable ---------------- */
int sim_cond_init(pthread_cond_t* pc, const pthread_condattr_t* a) {
    SCond* c = (SCond*)pc; (void)a; ensure_main();
    { int const failed = init_fault();
      memset(pc, 0, sizeof *pc);
      c->magic = C_MAGIC; c->ord = G.next_ord++;
      return failed ? ENOMEM : 0; }
}
int sim_cond_destroy(pthread_cond_t* pc) {
    SCond* c = (SCond*)pc; int i; ensure_main();
    if (c->magic != C_MAGIC) return EINVAL;
    for (i = 0; i < G.nt; i++) if (G.t[i].state == ST_BLOCKED_COND && G.t[i].wait_obj == c) sim_violation("sched_misuse", "destroy of cond #%u with waiter t%d", c->ord, i);
    c->magic = DEAD_MAGIC;
    return 0;
}
int sim_cond_wait(pthread_cond_t* pc, pthread_mutex_t* pm) {
    SCond* c = (SCond*)pc; SMutex* m = (SMutex*)pm; ensure_main();
    if (c->magic != C_MAGIC) sim_violation("sched_misuse", "wait on %s cond", c->magic == DEAD_MAGIC ? "destroyed" : "uninitialised");
    if (m->magic != M_MAGIC || m->owner != t_tid) sim_violation("sched_misuse", "cond_wait #%u without holding mutex", c->ord);
    if (__tsan_release) __tsan_release(pm);
    release_mutex(m);
    G.t[t_tid].state = ST_BLOCKED_COND; G.t[t_tid].wait_obj = c; G.t[t_tid].wake_spurious = 0;
    block_self(OP_WAIT, c->ord);
    G.t[t_tid].wait_obj = NULL;
    /* re-acquire */
    while (m->owner != -1) {
        G.t[t_tid].state = ST_BLOCKED_MUTEX; G.t[t_tid].wait_obj = m;
        block_self(OP_LOCK, m->ord);
    }
    m->owner = t_tid;
    if (__tsan_acquire) __tsan_acquire(pm);
    return 0;
}
int sim_cond_signal(pthread_cond_t* pc) {
    SCond* c = (SCond*)pc; int w[MAXT], nw = 0, i; ensure_main();
    if (c->magic != C_MAGIC) sim_violation("sched_misuse", "signal on %s cond", c->magic == DEAD_MAGIC ? "destroyed" : "uninitialised");
    for (i = 0; i < G.nt; i++) if (G.t[i].state == ST_BLOCKED_COND && G.t[i].wait_obj == c) w[nw++] = i;
    if (nw) { int v = w[choose_plain(nw)]; G.t[v].state = ST_RUNNABLE; G.t[v].wait_obj = NULL; }
    sched_point(OP_SIGNAL, c->ord);
    return 0;
}
int sim_cond_broadcast(pthread_cond_t* pc) {
    SCond* c = (SCond*)pc; int i; ensure_main();
    if (c->magic != C_MAGIC) sim_violation("sched_misuse", "broadcast on %s cond", c->magic == DEAD_MAGIC ? "destroyed" : "uninitialised");
    for (i = 0; i < G.nt; i++) if (G.t[i].state == ST_BLOCKED_COND && G.t[i].wait_obj == c) { G.t[i].state = ST_RUNNABLE; G.t[i].wait_obj = NULL; }
    sched_point(OP_BCAST, c->ord);
    return 0;
}

/* ---------------- threads ---------------- */
static void* trampoline(void* arg) {
    int me = (int)(intptr_t)arg, i, next;
    t_tid = me;
    fwait(&G.t[me].futex);              /* park until first scheduled */
    G.t[me].ret = G.t[me].fn(G.t[me].arg);
    /* exit: holds the baton here */
    G.t[me].state = ST_DONE;
    for (i = 0; i < G.nt; i++) if (G.t[i].state == ST_BLOCKED_JOIN && G.t[i].wait_obj == &G.t[me]) { G.t[i].state = ST_RUNNABLE; G.t[i].wait_obj = NULL; }
    G.steps++;
    G.sig = sim_mix64(G.sig ^ ((uint64_t)(unsigned)me << 40) ^ ((uint64_t)OP_EXIT << 32));
    next = pick_next(-1);
    if (next < 0) deadlock();
    G.switches++;
    fwake(&G.t[next].futex);
    return G.t[me].ret;
}
static int create_internal(pthread_t* out, void* (*fn)(void*), void* arg) {
    int id;
    ensure_main();
    G.ncreate++;
    if (G.cfg.fail_create_at && G.ncreate == G.cfg.fail_create_at) { G.create_failed++; sim_fault_fired("pthread_create_eagain"); return -EAGAIN; }
    if (G.nt >= MAXT) return -EAGAIN;
    id = G.nt++;
    memset(&G.t[id], 0, sizeof G.t[id]);
    G.t[id].fn = fn; G.t[id].arg = arg; G.t[id].state = ST_RUNNABLE;
    G.t[id].prio = 1000 + (long)rng_below(&G.rng_sp, 1000000);
    atomic_store(&G.t[id].futex, 0);
    if (pthread_create(&G.t[id].real, NULL, trampoline, (void*)(intptr_t)id) != 0) { G.nt--; return -EAGAIN; }
    G.t[id].has_real = 1;
    if (out) *out = G.t[id].real;
    sched_point(OP_CREATE, (uint32_t)id);
    return id;
}
int sim_thread_create(pthread_t* t, const pthread_attr_t* a, void* (*fn)(void*), void* arg) {
    int r = create_internal(t, fn, arg); (void)a;
    return r < 0 ? -r : 0;
}
static void join_internal(int id, void** ret) {
    if (G.t[id].joined) sim_violation("sched_misuse", "thread %d joined twice", id);
    while (G.t[id].state != ST_DONE) {
        G.t[t_tid].state = ST_BLOCKED_JOIN; G.t[t_tid].wait_obj = &G.t[id];
        block_self(OP_JOIN, (uint32_t)id);
    }
    pthread_join(G.t[id].real, NULL);
    G.t[id].joined = 1;
    if (ret) *ret = G.t[id].ret;
}
int sim_thread_join(pthread_t t, void** ret) {
    int i; ensure_main();
    for (i = 1; i < G.nt; i++) if (G.t[i].has_real && !G.t[i].joined && pthread_equal(G.t[i].real, t)) { join_internal(i, ret); return 0; }
    sim_violation("sched_misuse", "join of unknown or already-joined thread");
}
int sim_spawn(void* (*fn)(void*), void* arg) { pthread_t t; return create_internal(&t, fn, arg); }
void sim_join_tid(int tid) { ensure_main(); if (tid > 0 && tid < G.nt) join_internal(tid, NULL); }
