/* sim_redirect.h — force-included (-include) into every zstd translation unit of a simulation build.
 * zstd's threading.h maps ZSTD_pthread_* to pthread_* by macro; this header re-maps those eleven names
 * to the deterministic scheduler, so no change to /repo is needed for the scheduling seam. */
#ifndef SIM_REDIRECT_H
#define SIM_REDIRECT_H
#ifndef __ASSEMBLER__
#include <pthread.h>
#ifdef __cplusplus
extern "C" {
#endif
int sim_mutex_init(pthread_mutex_t* m, const pthread_mutexattr_t* a);
int sim_mutex_destroy(pthread_mutex_t* m);
int sim_mutex_lock(pthread_mutex_t* m);
int sim_mutex_unlock(pthread_mutex_t* m);
int sim_cond_init(pthread_cond_t* c, const pthread_condattr_t* a);
int sim_cond_destroy(pthread_cond_t* c);
int sim_cond_wait(pthread_cond_t* c, pthread_mutex_t* m);
int sim_cond_signal(pthread_cond_t* c);
int sim_cond_broadcast(pthread_cond_t* c);
int sim_thread_create(pthread_t* t, const pthread_attr_t* a, void* (*fn)(void*), void* arg);
int sim_thread_join(pthread_t t, void** ret);
#ifdef __cplusplus
}
#endif
#ifndef SIM_NO_REDIRECT
#define pthread_mutex_init     sim_mutex_init
#define pthread_mutex_destroy  sim_mutex_destroy
#define pthread_mutex_lock     sim_mutex_lock
#define pthread_mutex_unlock   sim_mutex_unlock
#define pthread_cond_init      sim_cond_init
#define pthread_cond_destroy   sim_cond_destroy
#define pthread_cond_wait      sim_cond_wait
#define pthread_cond_signal    sim_cond_signal
#define pthread_cond_broadcast sim_cond_broadcast
#define pthread_create         sim_thread_create
#define pthread_join           sim_thread_join
#endif
#endif /* __ASSEMBLER__ */
#endif
