/* main.c — driver: one binary per build flavour containing every scenario.
 *   simzstd <scenario> [--root SEED] [--start I] [--count N] [--stride K] [--tier quick|thorough]
 *           [--plan FILE] [--gen-only] [--verbose] [--cpu-cap SEC] [--dump-trace]
 * Run i uses seed_i = mix(root ^ hash(scenario), i); everything else is derived from seed_i. */
#define _GNU_SOURCE
#include "core/sim.h"
#include "scenarios/scenarios.h"
#include <signal.h>
#include <sys/time.h>
#include <sys/personality.h>
#include <unistd.h>
#include <execinfo.h>

/* sanitizer defaults: classified by exit code 77, no leak sweep (the simulator does its own accounting) */
__attribute__((used)) const char* __asan_default_options(void) { return "exitcode=77:detect_leaks=0:allocator_may_return_null=1:abort_on_error=0:detect_stack_use_after_return=0"; }
__attribute__((used)) const char* __ubsan_default_options(void) { return "exitcode=77:print_stacktrace=1"; }
__attribute__((used)) const char* __tsan_default_options(void) { return "exitcode=77:halt_on_error=1:report_signal_unsafe=0:second_deadlock_stack=1:report_thread_leaks=0:allocator_may_return_null=1"; }

/* Simulator infrastructure and harness code are not TSan-instrumented, but the libc interceptors they call (memcpy,
 * strcmp, snprintf...) are, and infrastructure bookkeeping is touched by every simulated thread (serialised by the
 * baton, which TSan cannot see).  Suppress reports whose stack contains one of the infrastructure FUNCTIONS - those
 * frames only occur when the access itself is inside the infrastructure.  Never suppress by file or by the thread
 * trampoline: a suppression matches any frame of the stack, and every stack of zstd code starts in harness files. */
__attribute__((used)) const char* __tsan_default_suppressions(void) {
    return "race:^sim_\nrace:^bump$\nrace:^do_alloc$\nrace:^do_free$\nrace:^check_blk$\nrace:^wset_\nrace:^__wrap_\nrace:^ZSTD_verif_\n"
           "race:^plan_\nrace:^rng_\nrace:^record$\nrace:^sess_wire_append$\nrace:^flush_quarantine$\n";
}

static void on_cpu_cap(int sig) {
    static const char m[] = "\nHANG cpu cap exceeded\n";
    (void)sig;
    if (write(1, m, sizeof m - 1) < 0) {}
    _exit(68);
}

static void on_crash(int sig) {
    void* bt[24]; int n; char m[64]; int l = snprintf(m, sizeof m, "\nCRASH signal %d backtrace:\n", sig);
    alarm(5);   /* the handler is not async-signal-safe (crash inside malloc): never hang */
    if (write(2, m, (size_t)l) < 0) {}
    n = backtrace(bt, 24); backtrace_symbols_fd(bt, n, 2);
    signal(sig, SIG_DFL); raise(sig);
}

const Scenario* find_scenario(const char* name) {
    int i;
    for (i = 0; g_scenarios[i]; i++) if (!strcmp(g_scenarios[i]->name, name)) return g_scenarios[i];
    return NULL;
}

int main(int argc, char** argv) {
    const char* scen_name; const Scenario* sc;
    uint64_t root = 1; long start = 0, count = 1, stride = 1; int tier = 0, gen_only = 0, dump_trace = 0; const char* plan_path = NULL; long cpu_cap = 120;
    int i; long n;
    /* deterministic address space: re-exec once with ASLR off */
    if (!getenv("SIMZSTD_NOASLR")) {
        int pers = personality(0xffffffff);
        if (pers != -1 && !(pers & ADDR_NO_RANDOMIZE) && personality(pers | ADDR_NO_RANDOMIZE) != -1) { setenv("SIMZSTD_NOASLR", "1", 1); execv("/proc/self/exe", argv); }
    }
    if (argc < 2) { fprintf(stderr, "usage: simzstd <scenario>|--list [options]\n"); return 2; }
    if (!strcmp(argv[1], "--list")) { for (i = 0; g_scenarios[i]; i++) printf("%s %s\n", g_scenarios[i]->name, g_scenarios[i]->prop); return 0; }
    scen_name = argv[1];
    for (i = 2; i < argc; i++) {
        if (!strcmp(argv[i], "--root") && i + 1 < argc) root = strtoull(argv[++i], NULL, 10);
        else if (!strcmp(argv[i], "--start") && i + 1 < argc) start = atol(argv[++i]);
        else if (!strcmp(argv[i], "--count") && i + 1 < argc) count = atol(argv[++i]);
        else if (!strcmp(argv[i], "--stride") && i + 1 < argc) stride = atol(argv[++i]);
        else if (!strcmp(argv[i], "--tier") && i + 1 < argc) tier = !strcmp(argv[++i], "thorough");
        else if (!strcmp(argv[i], "--plan") && i + 1 < argc) plan_path = argv[++i];
        else if (!strcmp(argv[i], "--cpu-cap") && i + 1 < argc) cpu_cap = atol(argv[++i]);
        else if (!strcmp(argv[i], "--gen-only")) gen_only = 1;
        else if (!strcmp(argv[i], "--dump-trace")) dump_trace = 1;
        else if (!strcmp(argv[i], "--verbose")) g_sim_verbose = 1;
        else { fprintf(stderr, "unknown option %s\n", argv[i]); return 2; }
    }
    g_sim_root = root;
    sc = find_scenario(scen_name);
    if (!sc && !plan_path) { fprintf(stderr, "unknown scenario %s\n", scen_name); return 2; }
    { void* warm[2]; backtrace(warm, 2); }   /* load the unwinder now, not inside a crash handler */
    signal(SIGVTALRM, on_cpu_cap);
#if !defined(__SANITIZE_ADDRESS__) && !defined(__SANITIZE_THREAD__)
#if !__has_feature(address_sanitizer) && !__has_feature(thread_sanitizer)
    signal(SIGSEGV, on_crash); signal(SIGBUS, on_crash); signal(SIGFPE, on_crash); signal(SIGABRT, on_crash); signal(SIGILL, on_crash);
#endif
#endif
    setvbuf(stdout, NULL, _IOLBF, 0);

    for (n = 0; n < count; n++) {
        long idx = start + n * stride;
        Plan plan; SchedCfg cfg; SchedStats st;
        g_sim_run_index = idx;
        if (plan_path) {
            if (plan_load(&plan, plan_path) != 0) { fprintf(stderr, "cannot load plan %s\n", plan_path); return 2; }
            sc = find_scenario(plan.scenario);
            if (!sc) { fprintf(stderr, "unknown scenario %s in plan\n", plan.scenario); return 2; }
        } else {
            Rng r; uint64_t seed = sim_mix64(sim_mix64(root ^ sim_strhash(sc->name)) + (uint64_t)idx);
            plan_init(&plan, sc->name, seed);
            rng_seed(&r, seed, "plan");
            sc->gen(&plan, &r, tier, idx);
        }
        if (gen_only) { printf("# run %ld\n", idx); plan_print(&plan, stdout); plan_free(&plan); continue; }
        { struct itimerval it; memset(&it, 0, sizeof it); it.it_value.tv_sec = cpu_cap; setitimer(ITIMER_VIRTUAL, &it, NULL); }
        sim_alloc_reset(); sim_wrap_reset(); sim_hooks_reset(plan.seed);
        sim_sched_cfg_from_plan(&cfg, &plan);
        sim_sched_reset(&cfg);
        sim_on_deadlock = NULL;
        sim_run_begin(&plan);
        sc->exec(&plan);
        sim_sched_finish(&st);
        sim_event("sched steps=%ld switches=%ld sig=%016llx", st.steps, st.switches, (unsigned long long)st.signature);
        sim_probe_n("sched.steps", st.steps); sim_probe_n("sched.switches", st.switches); sim_probe_n("sched.choices", st.choices); if (st.fair_forced) sim_probe_n("sched.fairness_forced_switch", st.fair_forced);
        if (st.threads_created) printf("SCHED %ld sig=%016llx steps=%ld sw=%ld\n", idx, (unsigned long long)st.signature, st.steps, st.switches);
        if (dump_trace) { int nt, k; const uint8_t* t = sim_sched_trace(&nt); printf("TRACE"); for (k = 0; k < nt; k++) printf(" %u", t[k]); printf("\n"); }
        sim_run_end_ok();
        plan_free(&plan);
    }
    if (!gen_only) sim_dump_probes(stdout);
    return 0;
}
