/* refdec.h — independent reference: spec-level frame walker, own XXH64, and the vendored educational decoder. */
#ifndef REFDEC_H
#define REFDEC_H
#include <stddef.h>
#include <stdint.h>

uint64_t ref_xxh64(const void* data, size_t len, uint64_t seed);

/* ---- framewalk: headers, block headers, trailer; no entropy decoding ---- */
typedef struct { int type; size_t bsize; size_t off; int last; } FwBlock;    /* type 0 raw,1 rle,2 compressed ; bsize = Block_Size field */
typedef struct {
    int kind;                /* 0 zstd frame, 1 skippable frame */
    size_t total_size;       /* bytes of the whole frame incl. magic and checksum */
    size_t header_size;      /* magic + frame header */
    uint8_t descriptor; int single_segment, checksum_flag, dictid_flag, fcs_flag, reserved_bit, unused_bit;
    int window_descriptor;   /* -1 when absent */
    uint64_t window_size, fcs; int has_fcs; uint32_t dict_id;
    int nblocks; FwBlock* blocks; size_t known_regen;  /* sum of raw+rle sizes */ int ncompressed;
    uint32_t stored_checksum; uint32_t skippable_magic; size_t skippable_len;
} FwFrame;
/* returns 0 ok, -1 truncated (needs more input), -2 invalid */
int  fw_parse(const uint8_t* src, size_t len, int magicless, FwFrame* f);
void fw_free(FwFrame* f);

/* ---- refdec: decode one frame with the vendored educational decoder ---- */
typedef struct { int type; size_t bsize, regen; int last; int lit_type; size_t nseq; size_t seq_body; } RefBlock;
typedef struct { int nblocks; RefBlock* blocks; int cblocks; size_t produced, consumed; char err[96]; } RefInfo;
/* returns 0 if the reference decoder accepts the frame; dst gets `produced` bytes */
int  refdec_frame(uint8_t* dst, size_t cap, const uint8_t* src, size_t len, const uint8_t* dict, size_t dictlen, int magicless, RefInfo* info);
void refdec_info_free(RefInfo* i);
extern int refdec_force_raw_dict;
/* whole stream: zstd frames + skippable frames, checksums verified with ref_xxh64; returns 0 ok */
int  refdec_stream(uint8_t* dst, size_t cap, size_t* produced, const uint8_t* src, size_t len, const uint8_t* dict, size_t dictlen, int magicless, char* err, size_t errn);
#endif
