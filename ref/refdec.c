/* refdec.c — reference decoder wrapper (vendored educational decoder), framewalk and XXH64.
 * Independent of lib/: nothing here includes or links zstd library code. */
#define _GNU_SOURCE
#include "refdec.h"
#include <setjmp.h>
#include <stdlib.h>
#include <string.h>
#include <stdio.h>

/* ---------------- own XXH64 ---------------- */
#define P1 11400714785074694791ULL
#define P2 14029467366897019727ULL
#define P3 1609587929392839161ULL
#define P4 9650029242287828579ULL
#define P5 2870177450012600261ULL
static uint64_t rotl(uint64_t x, int r) { return (x << r) | (x >> (64 - r)); }
static uint64_t rd64(const uint8_t* p) { uint64_t v; memcpy(&v, p, 8); return v; }
static uint32_t rd32(const uint8_t* p) { uint32_t v; memcpy(&v, p, 4); return v; }
static uint64_t xround(uint64_t acc, uint64_t in) { acc += in * P2; acc = rotl(acc, 31); return acc * P1; }
static uint64_t xmerge(uint64_t acc, uint64_t v) { v = xround(0, v); acc ^= v; return acc * P1 + P4; }
uint64_t ref_xxh64(const void* data, size_t len, uint64_t seed) {
    const uint8_t* p = (const uint8_t*)data; const uint8_t* const end = p + len; uint64_t h;
    if (len >= 32) {
        const uint8_t* const lim = end - 32;
        uint64_t v1 = seed + P1 + P2, v2 = seed + P2, v3 = seed, v4 = seed - P1;
        do { v1 = xround(v1, rd64(p)); v2 = xround(v2, rd64(p + 8)); v3 = xround(v3, rd64(p + 16)); v4 = xround(v4, rd64(p + 24)); p += 32; } while (p <= lim);
        h = rotl(v1, 1) + rotl(v2, 7) + rotl(v3, 12) + rotl(v4, 18);
        h = xmerge(h, v1); h = xmerge(h, v2); h = xmerge(h, v3); h = xmerge(h, v4);
    } else h = seed + P5;
    h += (uint64_t)len;
    while (p + 8 <= end) { h ^= xround(0, rd64(p)); h = rotl(h, 27) * P1 + P4; p += 8; }
    if (p + 4 <= end) { h ^= (uint64_t)rd32(p) * P1; h = rotl(h, 23) * P2 + P3; p += 4; }
    while (p < end) { h ^= (*p) * P5; h = rotl(h, 11) * P1; p++; }
    h ^= h >> 33; h *= P2; h ^= h >> 29; h *= P3; h ^= h >> 32;
    return h;
}

/* ---------------- framewalk ---------------- */
void fw_free(FwFrame* f) { free(f->blocks); f->blocks = NULL; }
int fw_parse(const uint8_t* src, size_t len, int magicless, FwFrame* f) {
    size_t pos = 0; int cap = 0;
    memset(f, 0, sizeof *f); f->window_descriptor = -1;
    if (!magicless) {
        uint32_t magic;
        if (len < 4) return -1;
        magic = rd32(src);
        if ((magic & 0xFFFFFFF0U) == 0x184D2A50U) {
            uint32_t n;
            if (len < 8) return -1;
            n = rd32(src + 4);
            f->kind = 1; f->skippable_magic = magic; f->skippable_len = n; f->header_size = 8; f->total_size = 8 + (size_t)n;
            return len < f->total_size ? -1 : 0;
        }
        if (magic != 0xFD2FB528U) return -2;
        pos = 4;
    }
    if (len < pos + 1) return -1;
    f->descriptor = src[pos++];
    f->fcs_flag = f->descriptor >> 6; f->single_segment = (f->descriptor >> 5) & 1; f->unused_bit = (f->descriptor >> 4) & 1;
    f->reserved_bit = (f->descriptor >> 3) & 1; f->checksum_flag = (f->descriptor >> 2) & 1; f->dictid_flag = f->descriptor & 3;
    if (f->reserved_bit) return -2;
    if (!f->single_segment) {
        unsigned e, m; uint64_t base;
        if (len < pos + 1) return -1;
        f->window_descriptor = src[pos++]; e = (unsigned)f->window_descriptor >> 3; m = (unsigned)f->window_descriptor & 7;
        base = (uint64_t)1 << (10 + e); f->window_size = base + (base / 8) * m;
    }
    { static const int db[4] = { 0, 1, 2, 4 }; int n = db[f->dictid_flag], i; if (len < pos + (size_t)n) return -1; for (i = 0; i < n; i++) f->dict_id |= (uint32_t)src[pos + i] << (8 * i); pos += (size_t)n; }
    if (f->single_segment || f->fcs_flag) {
        static const int fb[4] = { 1, 2, 4, 8 }; int n = fb[f->fcs_flag], i;
        if (len < pos + (size_t)n) return -1;
        for (i = 0; i < n; i++) f->fcs |= (uint64_t)src[pos + i] << (8 * i);
        if (n == 2) f->fcs += 256;
        pos += (size_t)n; f->has_fcs = 1;
    }
    if (f->single_segment) f->window_size = f->fcs;
    f->header_size = pos;
    for (;;) {
        uint32_t h; FwBlock b; size_t body;
        if (len < pos + 3) { fw_free(f); return -1; }
        h = (uint32_t)src[pos] | ((uint32_t)src[pos + 1] << 8) | ((uint32_t)src[pos + 2] << 16);
        b.last = h & 1; b.type = (h >> 1) & 3; b.bsize = h >> 3; b.off = pos;
        if (b.type == 3) { fw_free(f); return -2; }
        body = b.type == 1 ? 1 : b.bsize;
        if (f->nblocks == cap) { cap = cap ? cap * 2 : 16; f->blocks = (FwBlock*)realloc(f->blocks, sizeof(FwBlock) * (size_t)cap); }
        f->blocks[f->nblocks++] = b;
        if (b.type != 2) f->known_regen += b.bsize; else f->ncompressed++;
        pos += 3;
        if (len < pos + body) { fw_free(f); return -1; }
        pos += body;
        if (b.last) break;
    }
    if (f->checksum_flag) { if (len < pos + 4) { fw_free(f); return -1; } f->stored_checksum = rd32(src + pos); pos += 4; }
    f->total_size = pos;
    return 0;
}

/* ---------------- vendored decoder, sandboxed ---------------- */
static jmp_buf g_jmp; static int g_armed;
int refdec_force_raw_dict = 0;   /* treat the dictionary as raw content even if it starts with the dictionary magic (refPrefix semantics) */
static void* g_allocs[4096]; static int g_nallocs;
static RefInfo* g_info; static int g_cur_lit; static size_t g_cur_nseq, g_cur_seqbody;
static void ref_fail(void) { if (g_armed) longjmp(g_jmp, 1); abort(); }
static void* ref_malloc(size_t n) { void* p = malloc(n ? n : 1); if (p && g_nallocs < 4096) g_allocs[g_nallocs++] = p; return p; }
static void* ref_calloc(size_t a, size_t b) { void* p = calloc(a ? a : 1, b ? b : 1); if (p && g_nallocs < 4096) g_allocs[g_nallocs++] = p; return p; }
static void ref_free(void* p) { int i; if (!p) return; for (i = g_nallocs - 1; i >= 0; i--) if (g_allocs[i] == p) { g_allocs[i] = g_allocs[--g_nallocs]; break; } free(p); }
static void ref_release_all(void) { while (g_nallocs > 0) free(g_allocs[--g_nallocs]); }
static void obs_block(int type, size_t bsize, size_t regen, int last) {
    RefInfo* i = g_info; if (!i) return;
    if ((i->nblocks & (i->nblocks - 1)) == 0) i->blocks = (RefBlock*)realloc(i->blocks, sizeof(RefBlock) * (size_t)(i->nblocks ? i->nblocks * 2 : 1));
    { RefBlock* b = &i->blocks[i->nblocks++]; b->type = type; b->bsize = bsize; b->regen = regen; b->last = last; b->lit_type = type == 2 ? g_cur_lit : -1; b->nseq = type == 2 ? g_cur_nseq : 0; b->seq_body = type == 2 ? g_cur_seqbody : 0; }
    if (type == 2) i->cblocks++;
    g_cur_lit = -1; g_cur_nseq = 0; g_cur_seqbody = 0;
}
#define REFDEC_OBS_BLOCK(t, l, r, last) obs_block((t), (l), (r), (last))
#define REFDEC_OBS_LIT(t) (g_cur_lit = (t))
#define REFDEC_OBS_NSEQ(n, rest) (g_cur_nseq = (n), g_cur_seqbody = (rest))
#define exit(c) ref_fail()
#define malloc ref_malloc
#define calloc ref_calloc
#define free ref_free
#define ZDEC_NO_MESSAGE
#define ZSTD_decompress edu_ZSTD_decompress
#define ZSTD_decompress_with_dict edu_ZSTD_decompress_with_dict
#define ZSTD_get_decompressed_size edu_ZSTD_get_decompressed_size
#define create_dictionary edu_create_dictionary
#define parse_dictionary edu_parse_dictionary
#define free_dictionary edu_free_dictionary
#include "edu_zstd_decompress.inc"
#undef exit
#undef malloc
#undef calloc
#undef free

void refdec_info_free(RefInfo* i) { free(i->blocks); i->blocks = NULL; i->nblocks = 0; }

int refdec_frame(uint8_t* dst, size_t cap, const uint8_t* src, size_t len, const uint8_t* dict, size_t dictlen, int magicless, RefInfo* info) {
    uint8_t* tmp = NULL; volatile int rc = -1; uint8_t dummy;
    RefInfo local; RefInfo* inf = info ? info : &local;
    memset(inf, 0, sizeof *inf);
    if (magicless) { tmp = (uint8_t*)malloc(len + 4); tmp[0] = 0x28; tmp[1] = 0xB5; tmp[2] = 0x2F; tmp[3] = 0xFD; memcpy(tmp + 4, src, len); src = tmp; len += 4; }
    if (!dst) { dst = &dummy; cap = 0; }
    g_info = inf; g_cur_lit = -1; g_cur_nseq = 0; g_cur_seqbody = 0; g_nallocs = 0; g_armed = 1;
    if (setjmp(g_jmp) == 0) {
        dictionary_t* d = edu_create_dictionary();
        istream_t in; ostream_t out;
        if (dict && dictlen >= 8) {
            if (refdec_force_raw_dict) { istream_t din = IO_make_istream(dict, dictlen); init_dictionary_content(d, &din); }
            else edu_parse_dictionary(d, dict, dictlen);
        }
        in = IO_make_istream(src, len); out = IO_make_ostream(dst, cap);
        decode_frame(&out, &in, d);
        inf->produced = (size_t)(out.ptr - dst);
        inf->consumed = (size_t)(in.ptr - src) - (magicless ? 4 : 0);
        edu_free_dictionary(d);
        rc = 0;
    } else { snprintf(inf->err, sizeof inf->err, "reference decoder rejected the frame"); rc = -1; }
    g_armed = 0; g_info = NULL;
    ref_release_all();
    free(tmp);
    if (!info) refdec_info_free(&local);
    return rc;
}

int refdec_stream(uint8_t* dst, size_t cap, size_t* produced, const uint8_t* src, size_t len, const uint8_t* dict, size_t dictlen, int magicless, char* err, size_t errn) {
    size_t ip = 0, op = 0; int nframes = 0;
    while (ip < len) {
        FwFrame f; int r = fw_parse(src + ip, len - ip, magicless, &f);
        if (r != 0) { snprintf(err, errn, "frame %d at %zu: framewalk %s", nframes, ip, r == -1 ? "truncated" : "invalid"); return -1; }
        if (f.kind == 1) { ip += f.total_size; fw_free(&f); nframes++; continue; }
        { RefInfo info; int rr = refdec_frame(dst + op, cap - op, src + ip, f.total_size, dict, dictlen, magicless, &info);
          if (rr != 0) { snprintf(err, errn, "frame %d at %zu: %s", nframes, ip, info.err); refdec_info_free(&info); fw_free(&f); return -1; }
          if (info.consumed != f.total_size) { snprintf(err, errn, "frame %d: reference decoder consumed %zu, framewalk says %zu", nframes, info.consumed, f.total_size); refdec_info_free(&info); fw_free(&f); return -1; }
          if (f.checksum_flag) { uint32_t c = (uint32_t)ref_xxh64(dst + op, info.produced, 0); if (c != f.stored_checksum) { snprintf(err, errn, "frame %d: stored checksum %08x != XXH64 low32 %08x of regenerated data", nframes, f.stored_checksum, c); refdec_info_free(&info); fw_free(&f); return -1; } }
          if (f.has_fcs && f.fcs != info.produced) { snprintf(err, errn, "frame %d: Frame_Content_Size %llu != regenerated %zu", nframes, (unsigned long long)f.fcs, info.produced); refdec_info_free(&info); fw_free(&f); return -1; }
          op += info.produced; refdec_info_free(&info); }
        ip += f.total_size; fw_free(&f); nframes++;
    }
    *produced = op;
    return 0;
}
